"""C14 — the curve collection of a LASFile behaves like an ordered list model under every edit history.

A history is a list of operations on one or two LASFiles (fresh `lasio.LASFile()` or read from a small
generated text).  An operation is a list of strings  [target, code, arg, ...]  (codes as in
coq/Model/CurvesObs.v, p_op):
  a name unit value descr ids      append_curve            i ix name unit value descr ids   insert_curve
  A name unit value descr ids      append_curve_item       b                                 append_curve_item(not a CurveItem)
  I ix name unit value descr ids   insert_curve_item       j ix                              insert_curve_item(ix, not a CurveItem)
  d mn ix                          delete_curve            u mn ix data unit descr value     update_curve
  r ix name unit value descr ids   replace_curve_item      s key ids                         las[key] = array
  t key name unit value descr ids  las[key] = CurveItem    D arr names truncate              set_data
Cross-file item operations (implementation side only, see ASSUMPTIONS): the CurveItem OBJECT at position i of file
src is handed to the target file
  P src i                          append_curve_item(files[src].curves[i])
  Q ix src i                       insert_curve_item(ix, files[src].curves[i])
  T key src i                      las[key] = files[src].curves[i]
Shared-array operations (implementation side only, see ASSUMPTIONS): the array is named by a reference, ONE ndarray
object handed over again and again:  @k  the caller's own array number k (pool_ids; the same object for the whole
history, every file), #src.i  the object files[src][i] returns (the array curve i of file src holds)
  V name unit value descr ref      append_curve(name, ARRAY)        W ix name unit value descr ref   insert_curve
  Y name unit value descr ref      append_curve_item(CurveItem(.., data=ARRAY))
  U mn ix ref                      update_curve(.., data=ARRAY)     S key ref                        las[key] = ARRAY
Arrays are lists of abstract sample ids (the float handed to lasio is float(id)), every id followed by ",";
2-D arrays: every column followed by ";"; names: "N" | "L" + every name followed by ","; optional arguments:
"N" | "S" + payload.
"""
import itertools
import re

import numpy as np

import lib

PROP = "C14"
MODEL_TARGETS = ["Model/Curves.vo", "Model/CurvesSpec.vo", "Model/CurvesObs.vo", "Model/ItemsObs.vo"]
THEOREMS = ["C14_refine", "C14_refine_append_curve", "C14_refine_insert_curve", "C14_refine_append_curve_item", "C14_refine_insert_curve_item", "C14_refine_delete_curve", "C14_refine_update_curve", "C14_refine_replace_curve_item", "C14_refine_setitem", "C14_refine_setitem_array_present", "C14_refine_setitem_array_missing", "C14_refine_setitem_item_mismatch", "C14_refine_setitem_item_present", "C14_refine_setitem_item_missing", "C14_refine_set_data", "C14_set_data_lengths", "C14_refinement", "C14_outcomes", "C14_obs_keys", "C14_obs_keys_exact", "C14_obs_keys_sound", "C14_obs_missing_key", "C14_obs_missing_index", "C14_obs_int_index", "C14_obs_values", "C14_obs_items", "C14_obs_index", "C14_obs_get_curve", "C14_obs_data_defined", "C14_obs_data_empty", "C14_obs_data_ragged", "C14_obs_data_columns", "C14_inv_fresh", "C14_inv_read_partial", "C14_inv_step_partial", "C14_inv_reachable_partial", "C14_inv_reachable_names_partial", "C14_reachable_lookup_partial", "C14_independent", "C14_independent_history", "C14_truncate_refuted_prefix", "C14_replace_negative_refuted_prefix", "C14_keys_refuted", "C14_keys_read", "C14_keys_step_partial", "C14_keys_closed_form_partial", "C14_keys_grows_keeps", "C14_set_data_keys", "C14_keys_closed_form_stale"]
ASSUMPTIONS = [
    "hand model of the curve methods of las.py (Model/Curves.v, on top of Model/Items.v) tied by correspondence: every "
    "generated history is run on real LASFile objects and on the model inside Coq; compared after EVERY step: the "
    "exception class of the call, keys(), original mnemonics, unit/value/descr, every curve's array (as sample ids), "
    "data (shape and rows, or ValueError), las[i] for 9 ints around the ends, las[k] for every key and 7 probe keys, "
    "index, the mnemonic_transforms flag -- for every LASFile of the history",
    "arrays are immutable values (lists of abstract sample ids; the harness hands lasio float(id)): numpy view-vs-copy "
    "semantics (set_data stores views of the caller's array, append_curve keeps the caller's array) are outside the model",
    "str.upper() is modelled as ASCII upper-casing; generated mnemonics are ASCII.  Literal 'X:<n>' names are generated "
    "(las['A:1'] = array, names=['A:1', ...]): the C13 known finding suffix-clash then shows as keys() not pairwise "
    "distinct / las[k] finding another curve; finding_of replays the history and accepts a violation as that finding "
    "only when the FIRST failing clause is one of these two and is about two curves that share a key because one is "
    "literally named u:<k> and the other is a u with the generated suffix :<k> (compared as the ~Curves section "
    "compares names: case-insensitively when mnemonic_transforms is on; 'A:01' is no generated suffix)",
    "read LASFiles: letter-only unit/value/descr tokens; read with mnemonic_case upper and lower (mnemonic_transforms on; "
    "the model is handed the names as the reader leaves them and builds the initial state by appending the curves) and "
    "with mnemonic_case='preserve' (flag off).  CurvesObs.p_file has no encoding for a read state with the flag off: a "
    "preserve-read file is presented to the model as a fresh LASFile followed by one append_curve_item per curve, and "
    "the expected observation after the j-th of these is what lasio.read gives for the text cut down to its first j "
    "curves (coq_view)",
    "cross-file item operations (pairs): b.append_curve_item(a.curves[i]), b.insert_curve_item(k, a.curves[i]), "
    "b[key] = a.curves[i], followed by edits of either file.  lasio stores the OBJECT (known finding shared-item: a later "
    "re-suffix / update_curve on one file shows in the other).  The Coq world model (Model/Curves*.v, CurvesObs.v) has "
    "value semantics - C14_independent(_history) hold by construction - and would mismatch on every such history, so "
    "they are routed through the implementation-side list-model oracle only (which COPIES the entry: the statement's "
    "reading); finding_of accepts a violation as shared-item only when the first failing clause is the independence "
    "clause, the curve that changed is by identity one object sitting in both files, and the history contains such an "
    "operation.  The same operations also hand a file an object it already holds (b.append_curve_item(x) twice, "
    "a.append_curve_item(a.curves[0])): known finding same-item-twice (one object at two positions carries one key), "
    "accepted only when the first failing clause is keys() pairwise distinct / a lookup about two positions holding one "
    "object and the history contains such a hand-over",
    "shared-array operations: ONE ndarray object handed to several calls (the caller's array @k appended / inserted into "
    "two LASFiles or twice into one, used as update_curve data or in las[k] = array; the array las[k] returns handed on "
    "as in las.append_curve('X2', las['X']), also across files).  lasio keeps the caller's array object (no copy), so "
    "such curves share one buffer.  The Coq world model has value semantics (it_data is a list of sample ids), it cannot "
    "express that two curves hold one buffer and C14_independent holds in it by construction: these histories are judged "
    "by the implementation-side list-model oracle only (the list entry gets the VALUE the array has at the call).  Only "
    "API operations are generated, never a caller writing into his own array afterwards (that aliasing with the caller's "
    "array is outside the statement: 'operations ... on one LASFile never affect another').  Checked after EVERY step of "
    "every history (all operation kinds): every curve of every file against the list model (so no operation changes "
    "another curve or another file through a shared buffer), and every array the harness ever handed to lasio (1-D, 2-D, "
    "pool arrays) still holds the values it was handed over with (clause caller_array: no API operation writes into a "
    "caller's array)",
    "arguments outside the statement's domain are not exercised: replace_curve_item / las[k] = x with something that is "
    "neither an array nor a CurveItem (replace_curve_item(ix, non-item) removes the curve and then fails its assert), "
    "non-int indices, arrays of rank > 2, pandas DataFrames (set_data_from_df)",
    "bulk comparison of observation texts goes through a three-sum digest computed on both sides (ItemsObs.digest); a "
    "sample of cases (and every digest mismatch) is compared as full text",
    "direct oracle (independent of the Coq model): a Python list of (name, (unit, value, descr), ids) tuples driven by "
    "the same history; a call naming a curve by mnemonic is resolved to a position through las.keys() as observed "
    "before the call",
]

FS, RS = "|", "~"
PROBE_KEYS = ["A", "a", "B", "UNKNOWN", "A:1", "a:2", "Z"]
ERRS = (KeyError, ValueError, IndexError, AssertionError, TypeError)


# ---- encoding helpers -----------------------------------------------------------------------------------
def enc_ids(ids):
    return "".join("%d," % i for i in ids)


def dec_ids(s):
    return [int(x) for x in s.split(",")[:-1]]


def enc_cols(cols):
    return "".join(enc_ids(c) + ";" for c in cols)


def dec_cols(s):
    return [dec_ids(c) for c in s.split(";")[:-1]]


def enc_names(names):
    return "N" if names is None else "L" + "".join(n + "," for n in names)


def dec_names(s):
    return None if s == "N" else s[1:].split(",")[:-1]


def enc_opt(x, f=lambda v: v):
    return "N" if x is None else "S" + f(x)


def dec_opt(s, f=lambda v: v):
    return None if s == "N" else f(s[1:])


def arr1(ids):
    return np.array([float(i) for i in ids], dtype=float)


def arr2(cols):
    if not cols:
        return np.empty((2, 0))
    if not cols[0]:
        return np.empty((0, len(cols)))
    return np.array([[float(x) for x in c] for c in cols], dtype=float).T.copy()


def ids_of(d):
    a = np.asarray(d)
    if a.ndim != 1:
        return "ND%d" % a.ndim
    try:
        return ".".join(str(int(x)) for x in a)
    except (TypeError, ValueError):
        return "?"


def exc(e):
    return type(e).__name__


# ---- the implementation side ------------------------------------------------------------------------------
def las_text(curves):
    """A small LAS 2.0 text with the given curves [(name, unit, value, descr, ids)] (all of one length)."""
    lines = ["~Version", "VERS. 2.0 : v", "WRAP. NO : w", "~Well", "NULL. -999.25 : n", "~Curve"]
    for (m, u, v, d, _ids) in curves:
        lines.append("%s.%s  %s : %s" % (m, u, v, d))
    lines.append("~ASCII")
    r = len(curves[0][4]) if curves else 0
    for j in range(r):
        lines.append(" ".join(str(c[4][j]) for c in curves))
    return "\n".join(lines) + "\n"


def init_case(init):
    """mnemonic_case the initial text is read with (third member of a read init; default upper)"""
    return init[2] if init != "F" and len(init) > 2 else "upper"


def cased(init, name):
    mc = init_case(init)
    return name.upper() if mc == "upper" else name.lower() if mc == "lower" else name


def make_las(init):
    import lasio
    if init == "F":
        return lasio.LASFile()
    return lasio.read(las_text(init[1]), mnemonic_case=init_case(init))


def curve_item(f, n):
    from lasio import CurveItem
    return CurveItem(f[n], f[n + 1], f[n + 2], f[n + 3], arr1(dec_ids(f[n + 4])))


CROSS = ("P", "Q", "T")


def cross_source(f):
    """(file number, position) of the item a cross-file operation hands over"""
    return (int(f[1]), int(f[2])) if f[0] == "P" else (int(f[2]), int(f[3]))


def cross_item(files, las, f):
    """the CurveItem object an item-handing operation names (src may be the target file itself), or None when there is
    no such curve"""
    src, i = cross_source(f)
    cs = list(list.__iter__(files[src].curves))
    if not -len(cs) <= i < len(cs):
        return None
    return cs[i]


SHARED = ("V", "W", "Y", "U", "S")
REF_AT = {"V": 5, "W": 6, "Y": 5, "U": 3, "S": 2}
POOL = 5                            # caller's arrays @0 .. @4


def pool_ids(k):
    """sample ids of the caller's array @k: length 2, @2 of length 3"""
    return [70000 + 10 * k + j for j in range(3 if k == 2 else 2)]


def pool_array(pool, k):
    """the ONE ndarray object that is the caller's array @k in this history (@3 holds int64)"""
    if k not in pool:
        a = arr1(pool_ids(k))
        pool[k] = a.astype("i8") if k == 3 else a
    return pool[k]


def shared_array(files, pool, ref):
    """the ndarray OBJECT a reference names, or None when there is no such curve"""
    if ref[0] == "@":
        return pool_array(pool, int(ref[1:]))
    src, i = ref[1:].split(".")
    cs = list(list.__iter__(files[int(src)].curves))
    i = int(i)
    if not -len(cs) <= i < len(cs):
        return None
    return files[int(src)][i]               # what las[i] returns: the array object the curve holds


def ref_ids(lists, ref):
    """the VALUE (sample ids) of the referenced array according to the list model"""
    if ref[0] == "@":
        return pool_ids(int(ref[1:]))
    src, i = ref[1:].split(".")
    return list(lists[int(src)][int(i)][2])


def value_op(f, ids):
    """the shared-array operation f as the plain operation that hands over a fresh array with the same values"""
    c, e = f[0], enc_ids(ids)
    if c == "V":
        return ["a"] + f[1:5] + [e]
    if c == "W":
        return ["i"] + f[1:6] + [e]
    if c == "Y":
        return ["A"] + f[1:5] + [e]
    if c == "U":
        return ["u", f[1], f[2], "S" + e, "N", "N", "N"]
    return ["s", f[1], e]


def keep(kept, a):
    """remember an array handed to lasio together with a private copy of what it held"""
    if kept is not None and not any(x is a for x, _ in kept):
        kept.append((a, a.copy()))
    return a


def same_array(a, b):
    return a.shape == b.shape and a.dtype == b.dtype and bool(np.array_equal(a, b))


def holds(las, obj):
    return any(x is obj for x in list.__iter__(las.curves))


def apply_op(las, f, files=None, pool=None, kept=None):
    """Run one operation (code first) on a real LASFile -> 'ok' or the exception class name ('skip': a cross-file
    operation whose source curve does not exist; nothing was called).  pool: the caller's arrays @k of this history;
    kept: every array handed to lasio is recorded there with a copy (Sim checks that none is ever written to)."""
    from lasio import HeaderItem, CurveItem
    c = f[0]
    if c in CROSS:
        item = cross_item(files, las, f)
        if item is None:
            return "skip"
    if c in SHARED:
        shared = shared_array(files, {} if pool is None else pool, f[REF_AT[c]])
        if shared is None:
            return "skip"
        keep(kept, shared)

    def arr1k(ids):
        return keep(kept, arr1(ids))

    def curve_item_k(f, n):
        return CurveItem(f[n], f[n + 1], f[n + 2], f[n + 3], arr1k(dec_ids(f[n + 4])))
    try:
        if c == "P":
            las.append_curve_item(item)
        elif c == "Q":
            las.insert_curve_item(int(f[1]), item)
        elif c == "T":
            las[f[1]] = item
        elif c == "V":
            las.append_curve(f[1], shared, unit=f[2], value=f[3], descr=f[4])
        elif c == "W":
            las.insert_curve(int(f[1]), f[2], shared, unit=f[3], value=f[4], descr=f[5])
        elif c == "Y":
            las.append_curve_item(CurveItem(f[1], f[2], f[3], f[4], shared))
        elif c == "U":
            kw = {"data": shared}
            if f[1] != "N":
                kw["mnemonic"] = f[1][1:]
            if f[2] != "N":
                kw["ix"] = int(f[2][1:])
            las.update_curve(**kw)
        elif c == "S":
            las[f[1]] = shared
        elif c == "a":
            las.append_curve(f[1], arr1k(dec_ids(f[5])), unit=f[2], value=f[3], descr=f[4])
        elif c == "i":
            las.insert_curve(int(f[1]), f[2], arr1k(dec_ids(f[6])), unit=f[3], value=f[4], descr=f[5])
        elif c == "A":
            las.append_curve_item(curve_item_k(f, 1))
        elif c == "b":
            las.append_curve_item(HeaderItem("H"))
        elif c == "I":
            las.insert_curve_item(int(f[1]), curve_item_k(f, 2))
        elif c == "j":
            las.insert_curve_item(int(f[1]), HeaderItem("H"))
        elif c == "d":
            kw = {}
            if f[1] != "N":
                kw["mnemonic"] = f[1][1:]
            if f[2] != "N":
                kw["ix"] = int(f[2][1:])
            las.delete_curve(**kw)
        elif c == "u":
            kw = {}
            if f[1] != "N":
                kw["mnemonic"] = f[1][1:]
            if f[2] != "N":
                kw["ix"] = int(f[2][1:])
            if f[3] != "N":
                kw["data"] = arr1k(dec_ids(f[3][1:]))
            for name, v in (("unit", f[4]), ("descr", f[5]), ("value", f[6])):
                if v != "N":
                    kw[name] = v[1:]
            las.update_curve(**kw)
        elif c == "r":
            las.replace_curve_item(int(f[1]), curve_item_k(f, 2))
        elif c == "s":
            las[f[1]] = arr1k(dec_ids(f[2]))
        elif c == "t":
            las[f[1]] = curve_item_k(f, 2)
        elif c == "D":
            a = keep(kept, arr1(dec_ids(f[1][1:])) if f[1][0] == "1" else arr2(dec_cols(f[1][1:])))
            las.set_data(a, names=dec_names(f[2]), truncate=(f[3] == "T"))
        else:
            return "?"
    except Exception as e:      # noqa: BLE001 - the class name is the observation
        return exc(e)
    return "ok"


def res_ids(f):
    try:
        return ids_of(f())
    except Exception as e:      # noqa: BLE001
        return exc(e)


def render_obs(las):
    """The canonical observation of one LASFile (same text as CurvesObs.sh_obs)."""
    cs = list(list.__iter__(las.curves))
    n = len(cs)
    keys = las.keys()
    try:
        d = las.data
        dtxt = "%dx%d:" % d.shape + ",".join(ids_of(row) for row in d)
    except Exception as e:      # noqa: BLE001
        dtxt = exc(e)
    probes = [0, 1, -1, -2, 5, n - 1, n, -n, -n - 1]
    return ("K=" + ",".join(keys)
            + ";O=" + ",".join(c.original_mnemonic for c in cs)
            + ";M=" + ",".join("%s/%s/%s" % (c.unit, c.value, c.descr) for c in cs)
            + ";V=" + ",".join(ids_of(c.data) for c in cs)
            + ";D=" + dtxt
            + ";I=" + ",".join(res_ids(lambda z=z: las[z]) for z in probes)
            + ";G=" + ",".join(res_ids(lambda k=k: las[k]) for k in keys)
            + ";P=" + ",".join(res_ids(lambda k=k: las[k]) for k in PROBE_KEYS)
            + ";X=" + res_ids(lambda: las.index)
            + ";T=" + ("T" if las.curves.mnemonic_transforms else "F"))


# ---- the direct oracle: a plain list of (name, (unit, value, descr), ids) ------------------------------------
BLANK = ("", ("", "", ""), ())
FAIL = "fail"


def shown(name):
    return "UNKNOWN" if name.strip() == "" else name


def entry(f, n):
    return (f[n], (f[n + 1], f[n + 2], f[n + 3]), tuple(dec_ids(f[n + 4])))


def addr(keys, mn, ix, n):
    """position addressed by (mnemonic=, ix=): the index takes precedence -> position or FAIL"""
    if ix != "N":
        z = int(ix[1:])
        return z if -n <= z < n else FAIL
    if mn != "N" and mn[1:] in keys:
        return keys.index(mn[1:])
    return FAIL


def list_step(L, keys, f, handed=None):
    """The list model: (new list | FAIL, unchanged_required).  FAIL = the call must raise and leave the
    curves alone.  `keys` = las.keys() before the call (resolves a mnemonic to a position).  `handed` = for a
    cross-file item operation (entry of the source file's list, session mnemonic of the item): the list model has
    value semantics, the entry is COPIED into this list."""
    c = f[0]
    n = len(L)
    L = list(L)
    if c == "P":
        return L + [handed[0]]
    if c == "Q":
        L.insert(int(f[1]), handed[0])
        return L
    if c == "T":
        if f[1] != handed[1]:
            return FAIL
        if f[1] in keys:
            L[keys.index(f[1])] = handed[0]
            return L
        return L + [handed[0]]
    if c == "a":
        return L + [(f[1], (f[2], f[3], f[4]), tuple(dec_ids(f[5])))]
    if c == "A":
        return L + [entry(f, 1)]
    if c in ("i", "I"):
        L.insert(int(f[1]), entry(f, 2))
        return L
    if c in ("b", "j"):
        return FAIL
    if c == "d":
        p = addr(keys, f[1], f[2], n)
        if p == FAIL:
            return FAIL
        del L[p]
        return L
    if c == "u":
        p = addr(keys, f[1], f[2], n)
        if p == FAIL:
            return FAIL
        name, (u, v, d), ids = L[p]
        if f[3] != "N":
            ids = tuple(dec_ids(f[3][1:]))
        if f[4] != "N":
            u = f[4][1:]
        if f[5] != "N":
            d = f[5][1:]
        if f[6] != "N":
            v = f[6][1:]
        L[p] = (name, (u, v, d), ids)
        return L
    if c == "r":
        z = int(f[1])
        if not -n <= z < n:
            return FAIL
        L[z] = entry(f, 2)
        return L
    if c == "s":
        if f[1] in keys:
            p = keys.index(f[1])
            L[p] = (L[p][0], L[p][1], tuple(dec_ids(f[2])))
            return L
        return L + [(f[1], ("", "", ""), tuple(dec_ids(f[2])))]
    if c == "t":
        if f[1] != shown(f[2]):
            return FAIL
        if f[1] in keys:
            L[keys.index(f[1])] = entry(f, 2)
            return L
        return L + [entry(f, 2)]
    if c == "D":
        names = dec_names(f[2])
        trunc = f[3] == "T"
        if f[1][0] == "1":
            # a 1-D array is no 2-D data array: nothing may change (an empty one is accepted)
            return "unchanged"
        cols = dec_cols(f[1][1:])
        if trunc:
            cols = cols[:n]
        if not cols or not cols[0]:
            return "unchanged"               # an array without elements
        if len(cols) < n:
            return FAIL                      # fewer columns than curves
        L = L + [BLANK] * (len(cols) - n)
        if not names:
            names = [e[0] for e in L]
        names = names + [""] * (len(L) - len(names))
        return [(names[i], L[i][1], tuple(cols[i])) for i in range(len(L))]
    raise ValueError(f)


def snapshot(las):
    cs = list(list.__iter__(las.curves))
    return [(id(c), c.original_mnemonic, c.mnemonic, str(c.unit), str(c.value), str(c.descr), ids_of(c.data)) for c in cs]


EXPLAINED_CLAUSES = ("keys_distinct", "lookup")


def check_views(las, L):
    """Every view of the LASFile against the list L -> [(clause, text, (p, q) | None)] (empty = all agree); p < q are
    the positions of the two curves the failure is about (two curves under one key; the curve a lookup should and
    does resolve to)."""
    bad = []
    cs = list(list.__iter__(las.curves))
    n = len(L)

    def pos(obj):
        return next((p for p, x in enumerate(cs) if x is obj), None)

    def pair(p, q):
        return None if p is None or q is None or p == q else (min(p, q), max(p, q))
    got = [(c.original_mnemonic, (str(c.unit), str(c.value), str(c.descr)), ids_of(c.data)) for c in cs]
    exp = [(e[0], e[1], ".".join(str(i) for i in e[2])) for e in L]
    if got != exp:
        bad.append(("content", "curves (name, metadata, array) are %r, the list model has %r" % (got, exp), None))
        return bad
    keys = las.keys()
    if keys != [c.mnemonic for c in cs]:
        bad.append(("keys", "keys() %r is not the list of session mnemonics" % (keys,), None))
    if len(set(keys)) != len(keys):
        q = next(j for j, k in enumerate(keys) if k in keys[:j])
        bad.append(("keys_distinct", "keys() %r are not pairwise distinct" % (keys,), pair(keys.index(keys[q]), q)))
    for k, e in zip(keys, L):
        if not (k == shown(e[0]) or re.fullmatch(re.escape(shown(e[0])) + r":[0-9]+", k)):
            bad.append(("key_name", "key %r does not belong to the curve named %r" % (k, e[0]), None))
    vals = las.values()
    if [ids_of(v) for v in vals] != [x[2] for x in exp]:
        bad.append(("values", "values() differ from the arrays of the list model", None))
    its = las.items()
    if [(k, ids_of(v)) for k, v in its] != [(k, x[2]) for k, x in zip(keys, exp)]:
        bad.append(("items", "items() is not zip(keys(), values())", None))
    # index
    try:
        ix = ids_of(las.index)
        if n == 0 or ix != exp[0][2]:
            bad.append(("index", "index is %r" % (ix,), None))
    except IndexError:
        if n:
            bad.append(("index", "index raised IndexError on a non-empty LASFile", None))
    except Exception as e:      # noqa: BLE001
        bad.append(("index", "index raised %s" % exc(e), None))
    # data: column i is curve i when all lengths agree
    lens = {len(e[2]) for e in L}
    try:
        d = las.data
        if len(lens) > 1:
            bad.append(("data", "data is defined although the curves have lengths %r" % (sorted(lens),), None))
        else:
            r = lens.pop() if lens else 0
            if d.shape != (r, n):
                bad.append(("data", "data.shape is %r, expected %r" % (d.shape, (r, n)), None))
            else:
                for i in range(n):
                    if ids_of(d[:, i]) != exp[i][2]:
                        bad.append(("data", "column %d of data is not curve %d" % (i, i), None))
    except ValueError:
        if len(lens) <= 1:
            bad.append(("data", "data raised ValueError although all curves have one length", None))
    except Exception as e:      # noqa: BLE001
        bad.append(("data", "data raised %s" % exc(e), None))
    # integer indexing, exactly as on a list
    for z in range(-n - 2, n + 2):
        try:
            g = ids_of(las[z])
            if not -n <= z < n or g != exp[z][2]:
                bad.append(("int", "las[%d] is %r" % (z, g), None))
        except IndexError:
            if -n <= z < n:
                bad.append(("int", "las[%d] raised IndexError" % z, None))
        except Exception as e:      # noqa: BLE001
            bad.append(("int", "las[%d] raised %s" % (z, exc(e)), None))
    # mnemonic indexing: key i finds curve i; other names raise KeyError
    for i, k in enumerate(keys):
        try:
            if ids_of(las[k]) != exp[i][2]:
                # which curve the lookup found instead (las[k] returns las.curves[k].data)
                bad.append(("lookup", "las[%r] is not the array of curve %d" % (k, i), pair(pos(las.curves[k]), i)))
            if las.get_curve(k) is not cs[i]:
                bad.append(("lookup", "get_curve(%r) is not curve %d" % (k, i), pair(pos(las.get_curve(k)), i)))
        except Exception as e:      # noqa: BLE001
            bad.append(("lookup", "las[%r] raised %s" % (k, exc(e)), None))
    for k in PROBE_KEYS + [x.swapcase() for x in keys]:
        if k in keys:
            continue
        try:
            las[k]
            bad.append(("missing_key", "las[%r] succeeds although %r is not a key" % (k, k), None))
        except KeyError:
            pass
        except Exception as e:      # noqa: BLE001
            bad.append(("missing_key", "las[%r] raised %s, not KeyError" % (k, exc(e)), None))
    return bad


def explained_by(las, v):
    """Which known finding explains the violation v = (clause, text, pair) on this LASFile?  Only `keys() pairwise
    distinct` and `las[k] / get_curve(k) finds curve i` failing on two curve positions p < q can be explained:
    same-item-twice  positions p and q hold ONE CurveItem object (it was handed to the file although the file already
                     held it), so both carry one key;
    suffix-clash     (C13's, seen through the LASFile) the two curves carry the same key BECAUSE one is literally named
                     u:<k> and the other is a u with the generated suffix :<k> (items_common.clash_pairs, compared the
                     way the ~Curves section compares names).
    -> finding id or None"""
    from props import items_common as ic
    if v[0] not in EXPLAINED_CLAUSES or v[2] is None:
        return None
    cs = list(list.__iter__(las.curves))
    if cs[v[2][0]] is cs[v[2][1]]:
        return "same-item-twice"
    return "suffix-clash" if v[2] in ic.clash_pairs(las.curves) else None


def init_list(init):
    if init == "F":
        return []
    return [(cased(init, m), (u, v, d), tuple(ids)) for (m, u, v, d, ids) in init[1]]


class Sim:
    """One history on real LASFiles, with the list-model oracle alongside."""

    def __init__(self, inits, oracle=True):
        self.inits = inits
        self.files = [make_las(i) for i in inits]
        self.lists = [init_list(i) for i in inits]
        self.oracle = oracle
        self.violations = []
        self.done = []
        self.shared = False
        self.cross = False          # an item OBJECT of another file was handed to a file: outside the Coq world model
        self.twice = False          # an item OBJECT was handed to a file that already holds it (by identity)
        self.pool = {}              # the caller's arrays @k (one ndarray object each for the whole history)
        self.kept = []              # (array handed to lasio, private copy of what it held then)
        if oracle:
            for t, las in enumerate(self.files):
                if inits[t] == "F" and len(las.curves):
                    self.shared = True
                    # state shared between LASFile objects: reproducible as a two-file history
                    self.violations.append({
                        "payload": {"inits": ["F", "F"], "ops": [["0", "a", "A", "u", "v", "d", "1,2,"]], "check": "fresh"},
                        "what": "a fresh LASFile() already has the curves %r: LASFile objects share state"
                                % (las.keys(),), "explained": None})
                    self.oracle = False
                    return
                for b in check_views(las, self.lists[t]):
                    self.flag("initial state of file %d: %s" % (t, b[1]), b[0], explained_by(las, b))

    def flag(self, what, clause, explained=None):
        """clause: which clause of the statement failed; explained: id of the known finding that explains THIS
        failure (decided on the failing state), or None"""
        if explained == "shared-item" and not self.cross or explained == "same-item-twice" and not self.twice:
            explained = None
        if len(self.violations) < 3:
            self.violations.append({"payload": {"inits": self.inits, "ops": [list(o) for o in self.done], "check": clause},
                                    "what": "after %s on %s: %s" % (self.done, self.inits, what), "explained": explained})
        # the list model and the LASFile have parted: later steps are still run (for the
        # observation) but no longer judged
        self.oracle = False

    def where_else(self, obj, but):
        """(file, position) of the object in another file than `but`, or None"""
        for j, x in enumerate(self.files):
            if j != but:
                for p, c in enumerate(list.__iter__(x.curves)):
                    if c is obj:
                        return j, p
        return None

    def step(self, op):
        t, f = int(op[0]), op[1:]
        las = self.files[t]
        judged = self.oracle
        handed = None
        if f[0] in CROSS:
            item = cross_item(self.files, las, f)
            if item is not None:
                if holds(las, item):
                    self.twice = True
                if cross_source(f)[0] != t:
                    self.cross = True
                if judged:
                    src, i = cross_source(f)
                    handed = (self.lists[src][i], item.mnemonic)
        fv = f
        if judged and f[0] in SHARED and shared_array(self.files, self.pool, f[REF_AT[f[0]]]) is not None:
            # the list model has value semantics: the entry gets the value the array has now
            fv = value_op(f, ref_ids(self.lists, f[REF_AT[f[0]]]))
        if judged:
            keys = las.keys()
            before = snapshot(las)
            others = [snapshot(x) if j != t else None for j, x in enumerate(self.files)]
        r = apply_op(las, f, self.files, self.pool, self.kept)
        self.done.append(op)
        if not judged or r == "skip":
            return r
        exp = list_step(self.lists[t], keys, fv, handed)
        plain = lambda snap: [x[1:] for x in snap]      # noqa: E731  (without the object ids)
        if exp == FAIL:
            if r == "ok":
                self.flag("the call succeeded although the list model rejects it", "raises")
            elif r not in [e.__name__ for e in ERRS]:
                self.flag("the call raised %s" % r, "raises")
            if snapshot(las) != before:
                self.flag("the call raised %s but changed the curves: %r -> %r" % (r, plain(before), plain(snapshot(las))), "frame")
        elif exp == "unchanged":
            after = [s[1:2] + s[3:] for s in snapshot(las)]
            if after != [s[1:2] + s[3:] for s in before]:
                self.flag("an array without elements / of the wrong rank changed the curves (%s)" % r, "frame")
        else:
            if r != "ok":
                self.flag("the call raised %s; the list model gives %r" % (r, exp), "raises")
                if snapshot(las) != before:
                    self.flag("... and the failed call changed the curves", "frame")
            else:
                self.lists[t] = exp
        for j, x in enumerate(self.files):
            if j != t and snapshot(x) != others[j]:
                # independence clause.  Is the curve that changed an OBJECT that also sits in another file?
                now = snapshot(x)
                cs = list(list.__iter__(x.curves))
                hit = None
                for p, (o_, n_) in enumerate(zip(others[j], now)):
                    if o_ != n_:
                        w = self.where_else(cs[p], j)
                        if w is not None:
                            hit = (p, w, o_[1:], n_[1:])
                            break
                if hit is not None and len(now) == len(others[j]):
                    self.flag("shared item: an operation on file %d changed file %d (curve %d of file %d is the same CurveItem "
                              "object as curve %d of file %d, handed over by append_curve_item / insert_curve_item / las[k] = item: "
                              "lasio stores the object, not a copy): %r -> %r" % (t, j, hit[0], j, hit[1][1], hit[1][0], hit[2], hit[3]),
                              "independent", "shared-item")
                else:
                    self.flag("an operation on file %d changed file %d" % (t, j), "independent")
        if self.oracle:
            for b in check_views(las, self.lists[t]):
                fid = explained_by(las, b)
                self.flag(("same item twice: curves %d and %d are ONE CurveItem object (handed to the file although it "
                           "already held it): " % b[2] if fid == "same-item-twice" else "") + b[1], b[0], fid)
        if self.oracle:
            # no API operation writes into an array of the caller
            for a, was in self.kept:
                if not same_array(a, was):
                    self.flag("the call wrote into an array of the caller: an array handed to lasio earlier as %r now holds %r "
                              "(lasio keeps the caller's array object as the curve's data; an operation must rebind the "
                              "curve's data, not write into that buffer)" % (was.tolist(), a.tolist()), "caller_array")
                    break
        return r

    def observe(self):
        return "|".join(render_obs(x) for x in self.files)


def enc_init(init):
    if init == "F":
        return "F"
    # the model is handed the names as the reader leaves them (upper / lower); mnemonic_case="preserve" (flag off) has
    # no encoding in CurvesObs.p_file: coq_view presents such a file as fresh + one append_curve_item per curve
    return FS.join(["R"] + ["/".join([cased(init, m), u, v, d, enc_ids(ids)]) for (m, u, v, d, ids) in init[1]])


def coq_ok(inits, ops):
    """can the Coq world model (value semantics) be asked about this history?"""
    return not any(o[1] in CROSS or o[1] in SHARED for o in ops)


def coq_view(inits, ops, text):
    """-> (case input, expected observation text, number of prefix operations) for the Coq world model, or None.
    CurvesObs.p_file knows two initial states: "F" (fresh, flag off) and "R|..." (read, flag on).  A file read with
    mnemonic_case="preserve" (flag off) is therefore presented to the model as a FRESH file followed by one
    append_curve_item per curve of the text; the expected line after the j-th of these prefix operations is the
    observation of what lasio.read gives for the text cut down to its first j curves (a real read each), the last of
    them being the initial state of the history itself."""
    import lasio
    if not coq_ok(inits, ops):
        return None
    if all(init_case(i) != "preserve" for i in inits):
        return case_input(inits, ops), text, 0
    lines = text.split("\n")
    world = [lasio.LASFile() if init_case(i) == "preserve" else make_las(i) for i in inits]
    pre_ops = []
    pre_lines = ["|".join(render_obs(x) for x in world)]
    for t, init in enumerate(inits):
        if init_case(init) != "preserve":
            continue
        for j in range(1, len(init[1]) + 1):
            world[t] = lasio.read(las_text(init[1][:j]), mnemonic_case="preserve")
            m, u, v, d, ids = init[1][j - 1]
            pre_ops.append([str(t), "A", m, u, v, d, enc_ids(ids)])
            pre_lines.append("ok|" + "|".join(render_obs(x) for x in world))
    if pre_lines[-1] != "ok|" + lines[0]:
        return None         # (never seen) the text read twice gives two different states: C10's business
    return (case_input(["F" if init_case(i) == "preserve" else i for i in inits], pre_ops + ops),
            "\n".join(pre_lines + lines[1:]), len(pre_ops))


def case_input(inits, ops):
    for o in ops:
        for a in o:
            assert FS not in a and RS not in a, o
    return RS.join([str(len(inits))] + [enc_init(i) for i in inits] + [FS.join(o) for o in ops])


def digest(text):
    a = b = d = 0
    for ch in text:
        a += ord(ch) + 1
        b += a
        d += b
    return "%d.%d.%d" % (a, b, d)


def run_history(inits, ops, oracle=True):
    """-> (case input, observation text, violations)"""
    sim = Sim(inits, oracle)
    lines = [sim.observe()]
    for o in ops:
        r = sim.step(o)
        lines.append(r + "|" + sim.observe())
    return case_input(inits, ops), "\n".join(lines), sim.violations


# ---- operation templates -------------------------------------------------------------------------------------
# positions: ints, or "len", "len+2", "-len-1" resolved against the live curve list
NAMES = ["A", "B", "", "a"]
POS = [0, 1, -1, "len", "len+2"]
NAME_POOL = ["A", "B", "C", "D", "E", "F", "G", "H", "J", "K", "L", "M"]


def full_alphabet():
    ops = [("a", n, 2) for n in NAMES] + [("a", "A", 3)]
    ops += [("i", p, n, 2) for p in POS for n in NAMES]
    ops += [("A", "A"), ("A", ""), ("b",)]
    ops += [("I", p, "A") for p in (0, -1, "len+2")] + [("j", 0)]
    ops += [("d", None, p) for p in POS + ["-len-1"]]
    ops += [("d", k, None) for k in ["A", "A:1", "A:2", "B", "UNKNOWN", "a", "Z"]]
    ops += [("d", None, None), ("d", "A:1", 1)]
    ops += [("u", None, p, "d") for p in (0, -1, "len")]
    ops += [("u", k, None, "u") for k in ["A", "A:1", "B", "Z"]]
    ops += [("u", "A:2", None, "duev"), ("u", "A", 0, "e"), ("u", None, None, "u"), ("u", "B", None, "")]
    ops += [("r", p, n) for p in (0, 1, -1, "len", "-len-1") for n in ("A", "B")]
    ops += [("s", k, 2) for k in ["A", "A:1", "B", "", "a", "UNKNOWN"]] + [("s", "B", 3)]
    ops += [("t", k, m) for (k, m) in [("A", "A"), ("A:1", "A"), ("B", "B"), ("B", "A"), ("UNKNOWN", ""), ("", ""), ("a", "a")]]
    ops += [("D", "len", nm, False, 2) for nm in (None, "empty", "shorter", "equal", "longer", "dup")]
    ops += [("D", "len+1", None, False, 2), ("D", "len+1", None, True, 2), ("D", "len+1", "dup", False, 2),
            ("D", "len+1", "shorter", True, 2), ("D", "len+2", "longer", False, 2), ("D", "len+2", "equal", False, 3),
            ("D", "len-1", None, False, 2), ("D", "len-1", "equal", False, 2), ("D", "len-1", None, True, 2),
            ("D", 0, None, False, 2), ("D", "len+1", "equal", False, 0), ("D", "1d", None, False, 2),
            ("D", "1d", "equal", False, 0), ("D", "1d", None, True, 2)]
    return ops


def mid_alphabet():
    return [("a", "A", 2), ("a", "", 2), ("a", "a", 2), ("i", 0, "A", 2), ("i", -1, "B", 2),
            ("d", None, 0), ("d", None, -1), ("d", "A:1", None), ("d", "A", None),
            ("u", "A:2", None, "du"), ("u", None, -1, "e"),
            ("r", -1, "A"), ("r", 0, "B"), ("s", "A", 2), ("s", "A:1", 2), ("t", "A", "A"), ("t", "B", "A"),
            ("D", "len", "dup", False, 2), ("D", "len+1", None, False, 2), ("D", "len+1", "shorter", True, 2),
            ("D", "len-1", "equal", False, 2), ("D", "len", None, False, 3)]


def small_alphabet():
    return [("a", "A", 2), ("a", "", 2), ("i", 0, "a", 2), ("i", -1, "A", 3), ("d", None, 0), ("d", "A:1", None),
            ("u", "A:2", None, "du"), ("r", -1, "A"), ("s", "A", 2), ("s", "A:1", 2), ("t", "A", "A"),
            ("t", "UNKNOWN", ""), ("D", "len+1", "dup", False, 2), ("D", "len", None, True, 2)]


def micro_alphabet():
    return [("a", "A", 2), ("i", 0, "a", 2), ("d", None, -1), ("d", "A:1", None), ("r", -1, "A"),
            ("s", "A:1", 2), ("t", "A", "A"), ("D", "len+1", "shorter", False, 2)]


def tiny_alphabet():
    return [("a", "A", 2), ("i", 0, "A", 2), ("d", None, -1), ("r", -1, "A"), ("D", "len+1", "dup", True, 2)]


def cross_alphabet():
    """(target file, template): file 0 = a, file 1 = b.  b receives item objects of a (P append_curve_item, Q
    insert_curve_item, T las[k] = item) and is then edited in ways that re-suffix (a curve of the same name is added)
    or update the received item; a is edited too (the sharing works both ways)."""
    return [(0, ("a", "A", 2)), (0, ("u", None, 0, "d")), (0, ("d", None, -1)), (0, ("P", 0, 0)),
            (1, ("P", 0, 0)), (1, ("P", 0, -1)), (1, ("Q", 0, 0, 0)), (1, ("T", 0, 0)),
            (1, ("a", "A", 2)), (1, ("i", 0, "A", 2)), (1, ("u", None, -1, "u")), (1, ("s", "A", 2))]


def shared_alphabet():
    """(target file, template).  ONE ndarray object reaches several curves: the caller's array @0 / @1 appended to both
    files and twice to file 0, the array las[0] returns appended again (to the same file, to the other file), used as
    update_curve / item-assignment data; in between the operations that replace a curve's data by a fresh array of the
    same length and dtype (update_curve(data=), las[k] = array, set_data) and deletions.  Whatever a call does to the
    curve it addresses, every other curve, the other file and the caller's arrays keep their values."""
    out = []
    for tgt in (0, 1):
        out += [(tgt, ("V", "A", "@0")), (tgt, ("u", None, 0, "d")), (tgt, ("s", "A", 2)), (tgt, ("U", None, -1, "@1"))]
    out += [(0, ("V", "B", "@0")), (0, ("V", "A", "#0.0")), (1, ("V", "A", "#0.0")), (1, ("W", 0, "B", "@1")),
            (0, ("Y", "A", "@1")), (1, ("U", "A", None, "#0.0")), (1, ("S", "B", "#0.-1")), (0, ("S", "A", "@1")),
            (0, ("d", None, 0)), (1, ("u", "A", None, "du")), (0, ("D", "len", None, False, 2))]
    return out


class Gen:
    """Fresh sample ids and metadata tags, so that every array and item is distinguishable."""

    def __init__(self):
        self.n = 0

    def ids(self, r):
        self.n += 1
        return [10 * self.n + j for j in range(r)]

    def tag(self, p):
        self.n += 1
        return "%s%d" % (p, self.n)


def pos_of(p, n):
    if isinstance(p, int):
        return p
    return {"len": n, "len+1": n + 1, "len+2": n + 2, "len-1": n - 1, "-len-1": -n - 1, "-len": -n}[p]


def instantiate(t, target, n, g):
    """template -> concrete operation (list of str), against a curve list of length n"""
    c = t[0]
    T = str(target)

    def item(name, r=2):
        return [name, g.tag("u"), g.tag("v"), g.tag("d"), enc_ids(g.ids(r))]

    if c == "P":
        return [T, "P", str(t[1]), str(t[2])]
    if c == "Q":
        return [T, "Q", str(pos_of(t[1], n)), str(t[2]), str(t[3])]
    if c == "T":                          # the key is filled in by play()/random_history (the item's session mnemonic)
        return [T, "T", t[3] if len(t) > 3 else "?", str(t[1]), str(t[2])]
    if c == "V":
        return [T, "V"] + item(t[1])[:4] + [t[2]]
    if c == "W":
        return [T, "W", str(pos_of(t[1], n))] + item(t[2])[:4] + [t[3]]
    if c == "Y":
        return [T, "Y"] + item(t[1])[:4] + [t[2]]
    if c == "U":
        return [T, "U", enc_opt(t[1]), enc_opt(None if t[2] is None else str(pos_of(t[2], n))), t[3]]
    if c == "S":
        return [T, "S", t[1], t[2]]
    if c == "a":
        return [T, "a"] + item(t[1], t[2])
    if c == "A":
        return [T, "A"] + item(t[1])
    if c == "b":
        return [T, "b"]
    if c == "i":
        return [T, "i", str(pos_of(t[1], n))] + item(t[2], t[3])
    if c == "I":
        return [T, "I", str(pos_of(t[1], n))] + item(t[2])
    if c == "j":
        return [T, "j", str(pos_of(t[1], n))]
    if c == "d":
        return [T, "d", enc_opt(t[1]), enc_opt(None if t[2] is None else str(pos_of(t[2], n)))]
    if c == "u":
        what = t[3]
        return [T, "u", enc_opt(t[1]), enc_opt(None if t[2] is None else str(pos_of(t[2], n))),
                enc_opt(enc_ids(g.ids(2)) if "d" in what else None),
                enc_opt(g.tag("U") if "u" in what else None),
                enc_opt(g.tag("E") if "e" in what else None),
                enc_opt(g.tag("W") if "v" in what else None)]
    if c == "r":
        return [T, "r", str(pos_of(t[1], n))] + item(t[2])
    if c == "s":
        return [T, "s", t[1], enc_ids(g.ids(t[2]))]
    if c == "t":
        return [T, "t", t[1]] + item(t[2])
    if c == "D":
        _, w, nm, trunc, r = t
        if w == "1d":
            a = "1" + enc_ids(g.ids(r))
            width = n
        else:
            width = max(pos_of(w, n), 0)
            base = g.ids(1)[0] * 10
            a = "2" + enc_cols([[base + 10 * i + j for j in range(r)] for i in range(width)])
        target_len = max(width, n) if not trunc else n
        names = {None: None, "empty": [], "shorter": NAME_POOL[:max(target_len - 1, 0)] or [""],
                 "equal": NAME_POOL[:target_len], "longer": NAME_POOL[:target_len + 1],
                 "dup": (["A", "B", "A", "A", "a", "B"] * 3)[:max(target_len, 1)]}[nm]
        return [T, "D", a, enc_names(names), "T" if trunc else "F"]
    raise ValueError(t)


READ_INIT = ["R", [("A", "m", "", "da", [1, 2]), ("B", "uu", "vb", "db", [3, 4]), ("A", "", "va", "", [5, 6])]]
READ_INIT2 = ["R", [("", "m", "", "x", [7, 8, 9]), ("C", "", "", "", [4, 5, 6])]]
# the same mixed-case curve section read with each mnemonic_case: upper -> A:1, B, A:2 (flag on), lower -> a:1, b, a:2
# (flag on), preserve -> A, b, a (flag off: shown to the model as a fresh file plus appends, coq_view)
MIXED = [("A", "m", "", "da", [1, 2]), ("b", "uu", "vb", "db", [3, 4]), ("a", "", "va", "", [5, 6])]
INITS = {"fresh": "F", "read": READ_INIT, "read2": READ_INIT2, "read_upper": ["R", MIXED, "upper"],
         "read_lower": ["R", MIXED, "lower"], "read_preserve": ["R", MIXED, "preserve"]}


def fill_cross(t, sim):
    """a  T  template names the source only: the key is the handed item's current session mnemonic (or, one time in
    the template's variant 'wrong', another key: the call must raise KeyError)"""
    if t[0] != "T":
        return t
    cs = list(list.__iter__(sim.files[t[1]].curves))
    if not -len(cs) <= t[2] < len(cs):
        return (t[0], t[1], t[2], "?")
    return (t[0], t[1], t[2], cs[t[2]].mnemonic if len(t) < 4 else t[3])


def play(inits, templates, targets=None, oracle=True, sigs=None):
    """Instantiate the templates one after the other against live LASFiles (positions such as `len` depend on
    the state) and run them.  -> (concrete ops, observation text, Sim)"""
    sim = Sim(inits, oracle)
    g = Gen()
    g.n = 10
    ops = []
    lines = [sim.observe()]
    for j, t in enumerate(templates):
        tgt = targets[j] if targets else 0
        o = instantiate(fill_cross(t, sim), tgt, len(sim.files[tgt].curves), g)
        r = sim.step(o)
        ops.append(o)
        lines.append(r + "|" + sim.observe())
        if sigs is not None:
            sigs.add(state_sig(sim))
    return ops, "\n".join(lines), sim


def build_history(inits, templates, targets=None):
    return play(inits, templates, targets, oracle=False)[0]


def random_template(rng, keys):
    def name():
        return rng.choice(NAMES + ["A", "B", "C", "UNKNOWN", "b"])

    def key():
        if keys and rng.random() < 0.75:
            k = rng.choice(keys)
            return k.swapcase() if rng.random() < 0.15 else k
        return rng.choice(["A", "B", "a", "A:1", "A:2", "UNKNOWN", "UNKNOWN:1", "Z", ""])

    def pos():
        return rng.choice([0, 1, 2, -1, -2, 3, "len", "len+2", "-len-1", "-len", "len-1"])

    r = rng.random()
    if r < 0.18:
        return ("a", name(), rng.choice([2, 2, 2, 3]))
    if r < 0.30:
        return ("i", pos(), name(), rng.choice([2, 2, 2, 3]))
    if r < 0.34:
        return rng.choice([("A", name()), ("I", pos(), name()), ("b",), ("j", pos())])
    if r < 0.44:
        return rng.choice([("d", None, pos()), ("d", key(), None), ("d", key(), pos()), ("d", None, None)])
    if r < 0.56:
        what = "".join(ch for ch in "duev" if rng.random() < 0.4)
        return rng.choice([("u", None, pos(), what), ("u", key(), None, what), ("u", key(), pos(), what)])
    if r < 0.66:
        return ("r", pos(), name())
    if r < 0.76:
        return ("s", key(), rng.choice([2, 2, 3]))
    if r < 0.84:
        k = key()
        base = k.split(":")[0]                  # a CurveItem is named without a generated suffix
        base = "" if base == "UNKNOWN" else base
        return ("t", k, rng.choice([base, base, name(), k if rng.random() < 0.1 else base]))
    w = rng.choice(["len", "len", "len+1", "len+2", "len-1", 0, "1d"])
    return ("D", w, rng.choice([None, "empty", "shorter", "equal", "longer", "dup"]), rng.random() < 0.35,
            rng.choice([2, 2, 2, 3, 0]))


def random_cross(rng, sim, tgt):
    """a cross-file item operation on file tgt, the source being the other file"""
    src = 1 - tgt if rng.random() < 0.85 else tgt
    n = len(sim.files[src].curves)
    i = rng.choice([0, -1, rng.randrange(n) if n else 0])
    r = rng.random()
    if r < 0.4:
        return ("P", src, i)
    if r < 0.7:
        return ("Q", rng.choice([0, 1, -1, "len"]), src, i)
    return ("T", src, i) if rng.random() < 0.85 else ("T", src, i, rng.choice(["A", "Z", "A:1"]))


def random_shared(rng, sim, tgt, keys):
    """a shared-array operation on file tgt: the array is the caller's @k or the array object a curve of either file holds"""
    if rng.random() < 0.55:
        ref = "@%d" % rng.randrange(POOL)
    else:
        src = rng.randrange(len(sim.files))
        n = len(sim.files[src].curves)
        ref = "#%d.%d" % (src, rng.choice([0, -1, rng.randrange(n) if n else 0]))
    name = rng.choice(["A", "B", "", "a", "C"])
    key = rng.choice(keys) if keys and rng.random() < 0.8 else rng.choice(["A", "B", "Z", "A:1", ""])
    pos = rng.choice([0, 1, -1, "len", "len+2", "-len-1", "len-1"])
    r = rng.random()
    if r < 0.30:
        return ("V", name, ref)
    if r < 0.45:
        return ("W", pos, name, ref)
    if r < 0.52:
        return ("Y", name, ref)
    if r < 0.80:
        return rng.choice([("U", None, pos, ref), ("U", key, None, ref), ("U", key, pos, ref)])
    return ("S", key, ref)


def random_history(rng, max_len, pair, oracle=False, sigs=None, init_names=("fresh", "read", "read2"), cross=0.0, shared=0.0):
    """-> (inits, ops, observation text, Sim).  cross: probability of a cross-file item operation per step (pairs);
    shared: probability of a shared-array operation per step"""
    inits = [INITS[rng.choice(init_names)] for _ in range(2 if pair else 1)]
    sim = Sim(inits, oracle)
    g = Gen()
    g.n = 10
    ops = []
    lines = [sim.observe()]
    for _ in range(rng.randint(1, max_len)):
        tgt = rng.randrange(len(inits))
        las = sim.files[tgt]
        if pair and cross and rng.random() < cross:
            t = fill_cross(random_cross(rng, sim, tgt), sim)
        elif shared and rng.random() < shared:
            t = random_shared(rng, sim, tgt, las.keys())
        else:
            t = random_template(rng, las.keys())
        o = instantiate(t, tgt, len(las.curves), g)
        r = sim.step(o)
        ops.append(o)
        lines.append(r + "|" + sim.observe())
        if sigs is not None:
            sigs.add(state_sig(sim))
    return inits, ops, "\n".join(lines), sim


# ---- the run --------------------------------------------------------------------------------------------------
ALPHABETS = {"full": full_alphabet, "mid": mid_alphabet, "small": small_alphabet, "micro": micro_alphabet,
             "tiny": tiny_alphabet, "cross": cross_alphabet, "shared": shared_alphabet}
SAMPLE_EVERY = 211


def families(ctx):
    """(label, [alphabet per position], init names, pair): ALL histories whose i-th operation is drawn from the
    i-th alphabet"""
    F, M, S, U, T = "full", "mid", "small", "micro", "tiny"
    fams = [("full^1", [F], ["fresh"], False), ("full^1", [F], ["read"], False), ("full^1", [F], ["read2"], False),
            ("full*mid", [F, M], ["read"], False), ("mid*full", [M, F], ["read"], False),
            ("mid^2", [M, M], ["fresh"], False),
            ("small^3", [S] * 3, ["fresh"], False),
            ("micro^4", [U] * 4, ["fresh"], False),
            ("tiny^5", [T] * 5, ["fresh"], False),
            ("pair micro^3", [U] * 3, ["read", "fresh"], True),
            # E: the same mixed-case ~Curve section read with each mnemonic_case
            ("full^1", [F], ["read_upper"], False), ("full^1", [F], ["read_lower"], False),
            ("full^1", [F], ["read_preserve"], False),
            ("mid^2 case", [M, M], ["read_lower"], False), ("mid^2 case", [M, M], ["read_preserve"], False),
            # A1: the item OBJECT of one file handed to the other, then edits that re-suffix / update it
            ("cross^4", ["cross"] * 4, ["fresh", "fresh"], "explicit"),
            ("cross^3", ["cross"] * 3, ["read", "fresh"], "explicit"),
            ("cross^3", ["cross"] * 3, ["read_preserve", "read_lower"], "explicit"),
            # one ndarray object handed to several curves / files, then data replaced by arrays of the same length and dtype
            ("shared^3", ["shared"] * 3, ["fresh", "fresh"], "explicit"),
            ("shared^3", ["shared"] * 3, ["read", "fresh"], "explicit")]
    if ctx.thorough:
        fams += [("full^2", [F, F], ["read"], False), ("full^2", [F, F], ["fresh"], False),
                 ("mid^3", [M] * 3, ["fresh"], False), ("mid^3", [M] * 3, ["read"], False),
                 ("small^4", [S] * 4, ["fresh"], False), ("small^4", [S] * 4, ["read"], False),
                 ("micro^5", [U] * 5, ["fresh"], False), ("tiny^6", [T] * 6, ["fresh"], False),
                 ("tiny^7", [T] * 7, ["fresh"], False),
                 ("pair small^3", [S] * 3, ["read", "fresh"], True), ("pair micro^5", [U] * 5, ["fresh", "fresh"], True),
                 ("pair mid^2", [M] * 2, ["read", "read2"], True),
                 ("mid^2 case", [M, M], ["read_upper"], False), ("small^3 case", [S] * 3, ["read_preserve"], False),
                 ("small^3 case", [S] * 3, ["read_lower"], False),
                 ("cross^5", ["cross"] * 5, ["fresh", "fresh"], "explicit"),
                 ("cross^4", ["cross"] * 4, ["read", "fresh"], "explicit"),
                 ("shared^4", ["shared"] * 4, ["fresh", "fresh"], "explicit"),
                 ("shared^3", ["shared"] * 3, ["read_preserve", "read2"], "explicit")]
    return fams


def state_sig(sim):
    return tuple((tuple((c.original_mnemonic, c.mnemonic, len(np.atleast_1d(c.data))) for c in list.__iter__(x.curves)),
                  x.curves.mnemonic_transforms) for x in sim.files)


def work_chunk(job):
    label, alpha_names, init_names, pair, first = job
    alphas = [ALPHABETS[a]() for a in alpha_names]
    inits = [INITS[i] for i in init_names]
    out = {"label": label, "cases": [], "texts": [], "viol": [], "sigs": set(), "inits": inits, "impl_only": 0,
           "explained": {}, "npre": 0}
    for rest in itertools.product(*alphas[1:]):
        tm = [alphas[0][first]] + list(rest)
        if pair == "explicit":              # templates carry their target file
            targets, tm = [x[0] for x in tm], [x[1] for x in tm]
        else:
            targets = [j % 2 for j in range(len(tm))] if pair else None
        ops, text, sim = play(inits, tm, targets, sigs=out["sigs"])
        if sim.shared:              # every later LASFile is polluted: stop
            out["viol"] += sim.violations[:1]
            out["abort"] = True
            return out
        for v in sim.violations[:2]:
            fid = v.get("explained")
            if fid:                     # explained by a known finding: counted, three per chunk and finding are kept
                out["explained"][fid] = out["explained"].get(fid, 0) + 1
                if out["explained"][fid] > 3:
                    continue
            out["viol"].append(v)
        cv = coq_view(inits, ops, text)
        if cv is None:
            out["impl_only"] += 1       # judged by the list-model oracle only (ASSUMPTIONS)
            continue
        out["npre"] = cv[2]
        if (len(out["cases"]) + first) % SAMPLE_EVERY == 0:
            out["texts"].append((len(out["cases"]), cv[1]))
        out["cases"].append((cv[0], digest(cv[1])))
    return out


def decode_case(inp):
    recs = inp.split(RS)
    k = int(recs[0])
    inits = []
    for r in recs[1:1 + k]:
        f = r.split(FS)
        if f[0] == "F":
            inits.append("F")
        else:
            cs = []
            for c in f[1:]:
                m, u, v, d, ids = c.split("/")
                cs.append((m, u, v, d, dec_ids(ids)))
            inits.append(["R", cs])
    return inits, [r.split(FS) for r in recs[1 + k:]]


RUN_CASE = "Require Import Items ItemsObs Curves CurvesObs.\nDefinition run (i : list N) : list N := CurvesObs.run_case i.\n"
RUN_DIGEST = "Require Import Items ItemsObs Curves CurvesObs.\nDefinition run (i : list N) : list N := CurvesObs.run_digest i.\n"


def run(ctx):
    import multiprocessing
    import time
    import lasio  # noqa: F401  (imported before forking)
    res = lib.Result()
    t_start = time.time()
    cases, texts, hist = [], {}, {}
    case_inits = []             # the inits of case i as generated (decode_case cannot tell mnemonic_case)
    n_explained = {}            # finding id -> failures of the direct oracle it explains (all of them, kept or not)
    n_impl_only = 0
    sigs = set()
    jobs = []
    for (label, alpha_names, init_names, pair) in families(ctx):
        for first in range(len(ALPHABETS[alpha_names[0]]())):
            jobs.append((label, alpha_names, init_names, pair, first))
    aborted = False
    with multiprocessing.get_context("fork").Pool(12) as pool:
        for out in pool.imap(work_chunk, jobs, chunksize=1):
            if out.get("abort"):
                res.oracle_violations += out["viol"]
                aborted = True
                pool.terminate()
                break
            base = len(cases)
            cases += out["cases"]
            case_inits += [(out["inits"], out["npre"])] * len(out["cases"])
            n_impl_only += out["impl_only"]
            for fid, k in out["explained"].items():
                n_explained[fid] = n_explained.get(fid, 0) + k
            for (j, t) in out["texts"]:
                texts[base + j] = t
            hist[out["label"]] = hist.get(out["label"], 0) + len(out["cases"]) + out["impl_only"]
            sigs |= out["sigs"]
            res.oracle_violations += out["viol"]
    if aborted:
        res.cases = len(cases)
        res.corr_error = "aborted: a fresh LASFile() is not empty (LASFile objects share state)"
        return res
    n_exh = len(cases)
    n_rand = 8000 if ctx.thorough else 600
    for j in range(n_rand):
        pair = j % 3 == 0
        inits, ops, text, sim = random_history(ctx.rng, 30, pair, oracle=True, sigs=sigs)
        if j % 40 == 0:
            texts[len(cases)] = text
        cases.append((case_input(inits, ops), digest(text)))
        case_inits.append((inits, 0))
        label = "random<=30 pair" if pair else "random<=30"
        hist[label] = hist.get(label, 0) + 1
        res.oracle_violations += sim.violations[:2]
        for v in sim.violations[:2]:
            if v.get("explained"):
                n_explained[v["explained"]] = n_explained.get(v["explained"], 0) + 1
    # a second stream: every mnemonic_case, and pairs with cross-file item operations (shorter: the first shared-item
    # failure ends the judged part of a history)
    n_rand2 = 4000 if ctx.thorough else 400
    n_rand += n_rand2
    all_inits = ("fresh", "read", "read2", "read_upper", "read_lower", "read_preserve")
    for j in range(n_rand2):
        pair = j % 2 == 0
        inits, ops, text, sim = random_history(ctx.rng, 12 if pair else 30, pair, oracle=True, sigs=sigs, init_names=all_inits,
                                               cross=0.25 if pair else 0.0)
        label = "random<=12 pair, cross-file items, any mnemonic_case" if pair else "random<=30 any mnemonic_case"
        hist[label] = hist.get(label, 0) + 1
        res.oracle_violations += sim.violations[:2]
        for v in sim.violations[:2]:
            if v.get("explained"):
                n_explained[v["explained"]] = n_explained.get(v["explained"], 0) + 1
        cv = coq_view(inits, ops, text)
        if cv is not None:
            if j % 40 == 1:
                texts[len(cases)] = cv[1]
            cases.append((cv[0], digest(cv[1])))
            case_inits.append((inits, cv[2]))
        else:
            n_impl_only += 1
    # a third stream: shared-array operations (one ndarray object handed to several calls) mixed into random histories
    # on one LASFile and on pairs; judged by the list-model oracle only
    n_rand3 = 3000 if ctx.thorough else 400
    n_rand += n_rand3
    for j in range(n_rand3):
        pair = j % 2 == 0
        inits, ops, text, sim = random_history(ctx.rng, 15, pair, oracle=True, sigs=sigs, init_names=all_inits,
                                               cross=0.08 if pair else 0.0, shared=0.35)
        label = "random<=15 pair, shared arrays" if pair else "random<=15 shared arrays"
        hist[label] = hist.get(label, 0) + 1
        res.oracle_violations += sim.violations[:2]
        for v in sim.violations[:2]:
            if v.get("explained"):
                n_explained[v["explained"]] = n_explained.get(v["explained"], 0) + 1
        n_impl_only += 1
    res.cases = len(cases) + n_impl_only
    res.extra["implementation_side_only"] = n_impl_only
    res.extra["impl_and_oracle_s"] = round(time.time() - t_start, 1)
    t_start = time.time()
    # shortest history first; a failure of a clause of the statement itself (content, independence, views) before the
    # caller_array clause
    res.oracle_violations.sort(key=lambda v: (v["payload"].get("check") == "caller_array", len(v["payload"]["ops"])))
    if ctx.build.model_ok:
        # the long random histories are spread evenly over the shards
        order = sorted(range(len(cases)),
                       key=lambda i: (i / max(n_exh, 1)) if i < n_exh else ((i - n_exh + 0.5) / max(n_rand, 1)))
        mism, err = lib.run_coq_cases("c14", [], RUN_DIGEST, [cases[i] for i in order], shard=400)
        mism = sorted(order[m] for m in mism)
        res.corr_error = err
        res.extra["coq_digest_s"] = round(time.time() - t_start, 1)
        sample = sorted(texts)
        full = [(cases[i][0], texts[i]) for i in sample]
        for i in mism[:100]:
            if i not in texts:
                inits_i, npre = case_inits[i]
                ops = decode_case(cases[i][0])[1][npre:]
                full.append((cases[i][0], coq_view(inits_i, ops, run_history(inits_i, ops, oracle=False)[1])[1]))
                sample.append(i)
        m2, err2 = lib.run_coq_cases("c14f", [], RUN_CASE, full, shard=8)
        res.corr_error = res.corr_error or err2
        for i in sorted(set(mism) | {sample[i] for i in m2}):
            res.mismatches.append({"inits": case_inits[i][0], "ops": decode_case(cases[i][0])[1][case_inits[i][1]:]})
        res.extra["full_text_cases"] = len(full)
    else:
        res.corr_error = "model not built"
    res.extra["coq_s"] = round(time.time() - t_start, 1)
    res.extra["exhaustive_cases"] = n_exh
    res.extra["oracle_violations_in_known_class"] = sum(1 for v in res.oracle_violations if v.get("explained"))
    for fid in ("suffix-clash", "shared-item", "same-item-twice"):
        res.extra["histories_failing_as_explained_by_" + fid] = n_explained.get(fid, 0)
    res.distinct_nontrivial = len(sigs)
    res.rule = ("histories of operations [append_curve, insert_curve, append/insert_curve_item (also with a non-item), "
                "delete_curve (ix / mnemonic / both / neither), update_curve, replace_curve_item, las[k]=array, "
                "las[k]=CurveItem, set_data; on pairs also the cross-file item operations append_curve_item / insert_curve_item / "
                "las[k] = (a CurveItem object of the other file); shared-array operations: append_curve / insert_curve / "
                "append_curve_item(CurveItem) / update_curve / las[k] = with ONE ndarray object handed over repeatedly (the "
                "caller's array @k, or the array las[i] returns, of either file)] over names {A,B,'',a} (duplicates by repetition), positions "
                "{0,1,-1,len,len+2,-len-1}, keys {A,A:1,A:2,B,UNKNOWN,a,Z,''}, arrays of length 2 (one of 3), 2-D arrays "
                "of width len/len+1/len+2/len-1/0 and with 0 rows, 1-D arrays, names None/[]/shorter/equal/longer/with "
                "duplicates, truncate on/off.  Alphabets: full %d templates, mid %d, small %d, micro %d, tiny %d.  "
                "EXHAUSTIVE (every history whose i-th operation is drawn from the i-th alphabet): %s.  SAMPLED: %d random "
                "histories up to length 30 on one LASFile and on pairs (fresh and read with mnemonic_case upper / lower / "
                "preserve), of which %d (cross-file item operations, shared-array operations) are judged by the list-model "
                "oracle only.  The observation of every LASFile "
                "is compared after every step.  distinct_nontrivial = distinct world states (original/session names, "
                "array lengths, flag of every LASFile) reached after some step"
                % (len(full_alphabet()), len(mid_alphabet()), len(small_alphabet()), len(micro_alphabet()),
                   len(tiny_alphabet()),
                   "; ".join("%s on %s" % (f[0], "+".join(f[2])) for f in families(ctx)), n_rand, n_impl_only))
    pick = [0, len(cases) // 3, n_exh - 1, len(cases) - 1]
    res.samples = [repr(decode_case(cases[i][0])) [:600] for i in pick]
    res.histogram = hist
    return res


def check_history(inits, ops):
    sim = Sim(inits)
    for o in ops:
        sim.step(o)
        if sim.violations:
            break
    return sim.violations


def replay(payload):
    v = check_history(payload["inits"], payload["ops"])
    if v:
        return True, v[0]["what"]
    return False, "the LASFile(s) agree with the list model after every step of %s" % (payload["ops"],)


def finding_of(payload):
    """The history is replayed and the FIRST failing clause decides (never the names or operations that merely occur):
    suffix-clash  the C13 known finding seen from the LASFile: `keys() pairwise distinct` or `las[k] / get_curve(k)
                  finds curve i` fails on two curves that share a key because one is literally named u:<k> and the
                  other is a u carrying the generated suffix :<k> (explained_by_clash);
    shared-item   the independence clause fails (an operation on one file changed another) and the curve that changed
                  is one CurveItem OBJECT sitting in both files, on a history that contains a cross-file item
                  operation (P / Q / T);
    same-item-twice  `keys() pairwise distinct` (or a lookup) fails on two positions of one file that hold ONE CurveItem
                  object, on a history in which P / Q / T handed a file an object that file already held."""
    try:
        v = check_history(payload["inits"], payload["ops"])
    except Exception:      # noqa: BLE001
        return None
    if not v:
        return None
    fid, clause = v[0].get("explained"), v[0]["payload"].get("check")
    if fid in ("suffix-clash", "same-item-twice") and clause in EXPLAINED_CLAUSES:
        return fid          # same-item-twice: Sim.flag grants it only if the history handed a file an object it held
    if fid == "shared-item" and clause == "independent" and any(o[1] in CROSS for o in payload["ops"]):
        return fid          # Sim.flag grants it only if an object of ANOTHER file was handed over
    return None


def search(ctx, res):
    for m in res.mismatches:
        for v in check_history(m["inits"], m["ops"]):
            yield v
    full = full_alphabet()
    for init in ("read", "fresh", "read2"):
        for n in (1, 2):
            for tm in itertools.product(full, repeat=n):
                inits = [INITS[init]]
                for v in check_history(inits, build_history(inits, list(tm))):
                    yield v
    for j in range(20000):
        inits, ops, _text, sim = random_history(ctx.rng, 30, ctx.rng.random() < 0.3, oracle=True, shared=0.3 if j % 2 else 0.0)
        for v in sim.violations:
            yield v
