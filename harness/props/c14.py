"""C14 — the curve collection of a LASFile behaves like an ordered list model under every edit history.

A history is a list of operations on one or two LASFiles (fresh `lasio.LASFile()` or read from a small
generated text).  An operation is a list of strings  [target, code, arg, ...]  (codes as in
coq/Model/CurvesObs.v, p_op):
  a name unit value descr ids      append_curve            i ix name unit value descr ids   insert_curve
  A name unit value descr ids      append_curve_item       b                                 append_curve_item(not a CurveItem)
  I ix name unit value descr ids   insert_curve_item       j ix                              insert_curve_item(ix, not a CurveItem)
  d mn ix                          delete_curve            u mn ix data unit descr value     update_curve
  r ix name unit value descr ids   replace_curve_item      s key ids                         las[key] = array
  t key name unit value descr ids  las[key] = CurveItem    D arr names truncate              set_data
Arrays are lists of abstract sample ids (the float handed to lasio is float(id)), every id followed by ",";
2-D arrays: every column followed by ";"; names: "N" | "L" + every name followed by ","; optional arguments:
"N" | "S" + payload.
"""
import itertools
import re

import numpy as np

import lib

PROP = "C14"
MODEL_TARGETS = ["Model/Curves.vo", "Model/CurvesSpec.vo", "Model/CurvesObs.vo", "Model/ItemsObs.vo"]
THEOREMS = ["C14_refine", "C14_refine_append_curve", "C14_refine_insert_curve", "C14_refine_append_curve_item", "C14_refine_insert_curve_item", "C14_refine_delete_curve", "C14_refine_update_curve", "C14_refine_replace_curve_item", "C14_refine_setitem", "C14_refine_setitem_array_present", "C14_refine_setitem_array_missing", "C14_refine_setitem_item_mismatch", "C14_refine_setitem_item_present", "C14_refine_setitem_item_missing", "C14_refine_set_data", "C14_set_data_lengths", "C14_refinement", "C14_outcomes", "C14_obs_keys", "C14_obs_keys_exact", "C14_obs_keys_sound", "C14_obs_missing_key", "C14_obs_missing_index", "C14_obs_int_index", "C14_obs_values", "C14_obs_items", "C14_obs_index", "C14_obs_get_curve", "C14_obs_data_defined", "C14_obs_data_empty", "C14_obs_data_ragged", "C14_obs_data_columns", "C14_inv_fresh", "C14_inv_read_partial", "C14_inv_step_partial", "C14_inv_reachable_partial", "C14_inv_reachable_names_partial", "C14_reachable_lookup_partial", "C14_independent", "C14_independent_history", "C14_truncate_refuted_prefix", "C14_replace_negative_refuted_prefix", "C14_keys_refuted"]
ASSUMPTIONS = [
    "hand model of the curve methods of las.py (Model/Curves.v, on top of Model/Items.v) tied by correspondence: every "
    "generated history is run on real LASFile objects and on the model inside Coq; compared after EVERY step: the "
    "exception class of the call, keys(), original mnemonics, unit/value/descr, every curve's array (as sample ids), "
    "data (shape and rows, or ValueError), las[i] for 9 ints around the ends, las[k] for every key and 7 probe keys, "
    "index, the mnemonic_transforms flag -- for every LASFile of the history",
    "arrays are immutable values (lists of abstract sample ids; the harness hands lasio float(id)): numpy view-vs-copy "
    "semantics (set_data stores views of the caller's array, append_curve keeps the caller's array) are outside the model",
    "str.upper() is modelled as ASCII upper-casing; generated mnemonics are ASCII; mnemonics are colon-free (the C13 "
    "known finding suffix-clash concerns literal 'X:<n>' names and is not re-examined here)",
    "read LASFiles: curve sections are written with upper-case mnemonics and letter-only unit/value/descr tokens, read "
    "with mnemonic_case='upper' (mnemonic_transforms on); the model builds that initial state by appending the curves",
    "arguments outside the statement's domain are not exercised: replace_curve_item / las[k] = x with something that is "
    "neither an array nor a CurveItem (replace_curve_item(ix, non-item) removes the curve and then fails its assert), "
    "non-int indices, arrays of rank > 2, pandas DataFrames (set_data_from_df)",
    "bulk comparison of observation texts goes through a three-sum digest computed on both sides (ItemsObs.digest); a "
    "sample of cases (and every digest mismatch) is compared as full text",
    "direct oracle (independent of the Coq model): a Python list of (name, (unit, value, descr), ids) tuples driven by "
    "the same history; a call naming a curve by mnemonic is resolved to a position through las.keys() as observed "
    "before the call",
]

FS, RS = "|", "~"
PROBE_KEYS = ["A", "a", "B", "UNKNOWN", "A:1", "a:2", "Z"]
ERRS = (KeyError, ValueError, IndexError, AssertionError, TypeError)


# ---- encoding helpers -----------------------------------------------------------------------------------
def enc_ids(ids):
    return "".join("%d," % i for i in ids)


def dec_ids(s):
    return [int(x) for x in s.split(",")[:-1]]


def enc_cols(cols):
    return "".join(enc_ids(c) + ";" for c in cols)


def dec_cols(s):
    return [dec_ids(c) for c in s.split(";")[:-1]]


def enc_names(names):
    return "N" if names is None else "L" + "".join(n + "," for n in names)


def dec_names(s):
    return None if s == "N" else s[1:].split(",")[:-1]


def enc_opt(x, f=lambda v: v):
    return "N" if x is None else "S" + f(x)


def dec_opt(s, f=lambda v: v):
    return None if s == "N" else f(s[1:])


def arr1(ids):
    return np.array([float(i) for i in ids], dtype=float)


def arr2(cols):
    if not cols:
        return np.empty((2, 0))
    if not cols[0]:
        return np.empty((0, len(cols)))
    return np.array([[float(x) for x in c] for c in cols], dtype=float).T.copy()


def ids_of(d):
    a = np.asarray(d)
    if a.ndim != 1:
        return "ND%d" % a.ndim
    try:
        return ".".join(str(int(x)) for x in a)
    except (TypeError, ValueError):
        return "?"


def exc(e):
    return type(e).__name__


# ---- the implementation side ------------------------------------------------------------------------------
def las_text(curves):
    """A small LAS 2.0 text with the given curves [(name, unit, value, descr, ids)] (all of one length)."""
    lines = ["~Version", "VERS. 2.0 : v", "WRAP. NO : w", "~Well", "NULL. -999.25 : n", "~Curve"]
    for (m, u, v, d, _ids) in curves:
        lines.append("%s.%s  %s : %s" % (m, u, v, d))
    lines.append("~ASCII")
    r = len(curves[0][4]) if curves else 0
    for j in range(r):
        lines.append(" ".join(str(c[4][j]) for c in curves))
    return "\n".join(lines) + "\n"


def make_las(init):
    import lasio
    if init == "F":
        return lasio.LASFile()
    return lasio.read(las_text(init[1]), mnemonic_case="upper")


def curve_item(f, n):
    from lasio import CurveItem
    return CurveItem(f[n], f[n + 1], f[n + 2], f[n + 3], arr1(dec_ids(f[n + 4])))


def apply_op(las, f):
    """Run one operation (code first) on a real LASFile -> 'ok' or the exception class name."""
    from lasio import HeaderItem
    c = f[0]
    try:
        if c == "a":
            las.append_curve(f[1], arr1(dec_ids(f[5])), unit=f[2], value=f[3], descr=f[4])
        elif c == "i":
            las.insert_curve(int(f[1]), f[2], arr1(dec_ids(f[6])), unit=f[3], value=f[4], descr=f[5])
        elif c == "A":
            las.append_curve_item(curve_item(f, 1))
        elif c == "b":
            las.append_curve_item(HeaderItem("H"))
        elif c == "I":
            las.insert_curve_item(int(f[1]), curve_item(f, 2))
        elif c == "j":
            las.insert_curve_item(int(f[1]), HeaderItem("H"))
        elif c == "d":
            kw = {}
            if f[1] != "N":
                kw["mnemonic"] = f[1][1:]
            if f[2] != "N":
                kw["ix"] = int(f[2][1:])
            las.delete_curve(**kw)
        elif c == "u":
            kw = {}
            if f[1] != "N":
                kw["mnemonic"] = f[1][1:]
            if f[2] != "N":
                kw["ix"] = int(f[2][1:])
            if f[3] != "N":
                kw["data"] = arr1(dec_ids(f[3][1:]))
            for name, v in (("unit", f[4]), ("descr", f[5]), ("value", f[6])):
                if v != "N":
                    kw[name] = v[1:]
            las.update_curve(**kw)
        elif c == "r":
            las.replace_curve_item(int(f[1]), curve_item(f, 2))
        elif c == "s":
            las[f[1]] = arr1(dec_ids(f[2]))
        elif c == "t":
            las[f[1]] = curve_item(f, 2)
        elif c == "D":
            a = arr1(dec_ids(f[1][1:])) if f[1][0] == "1" else arr2(dec_cols(f[1][1:]))
            las.set_data(a, names=dec_names(f[2]), truncate=(f[3] == "T"))
        else:
            return "?"
    except Exception as e:      # noqa: BLE001 - the class name is the observation
        return exc(e)
    return "ok"


def res_ids(f):
    try:
        return ids_of(f())
    except Exception as e:      # noqa: BLE001
        return exc(e)


def render_obs(las):
    """The canonical observation of one LASFile (same text as CurvesObs.sh_obs)."""
    cs = list(list.__iter__(las.curves))
    n = len(cs)
    keys = las.keys()
    try:
        d = las.data
        dtxt = "%dx%d:" % d.shape + ",".join(ids_of(row) for row in d)
    except Exception as e:      # noqa: BLE001
        dtxt = exc(e)
    probes = [0, 1, -1, -2, 5, n - 1, n, -n, -n - 1]
    return ("K=" + ",".join(keys)
            + ";O=" + ",".join(c.original_mnemonic for c in cs)
            + ";M=" + ",".join("%s/%s/%s" % (c.unit, c.value, c.descr) for c in cs)
            + ";V=" + ",".join(ids_of(c.data) for c in cs)
            + ";D=" + dtxt
            + ";I=" + ",".join(res_ids(lambda z=z: las[z]) for z in probes)
            + ";G=" + ",".join(res_ids(lambda k=k: las[k]) for k in keys)
            + ";P=" + ",".join(res_ids(lambda k=k: las[k]) for k in PROBE_KEYS)
            + ";X=" + res_ids(lambda: las.index)
            + ";T=" + ("T" if las.curves.mnemonic_transforms else "F"))


# ---- the direct oracle: a plain list of (name, (unit, value, descr), ids) ------------------------------------
BLANK = ("", ("", "", ""), ())
FAIL = "fail"


def shown(name):
    return "UNKNOWN" if name.strip() == "" else name


def entry(f, n):
    return (f[n], (f[n + 1], f[n + 2], f[n + 3]), tuple(dec_ids(f[n + 4])))


def addr(keys, mn, ix, n):
    """position addressed by (mnemonic=, ix=): the index takes precedence -> position or FAIL"""
    if ix != "N":
        z = int(ix[1:])
        return z if -n <= z < n else FAIL
    if mn != "N" and mn[1:] in keys:
        return keys.index(mn[1:])
    return FAIL


def list_step(L, keys, f):
    """The list model: (new list | FAIL, unchanged_required).  FAIL = the call must raise and leave the
    curves alone.  `keys` = las.keys() before the call (resolves a mnemonic to a position)."""
    c = f[0]
    n = len(L)
    L = list(L)
    if c == "a":
        return L + [(f[1], (f[2], f[3], f[4]), tuple(dec_ids(f[5])))]
    if c == "A":
        return L + [entry(f, 1)]
    if c in ("i", "I"):
        L.insert(int(f[1]), entry(f, 2))
        return L
    if c in ("b", "j"):
        return FAIL
    if c == "d":
        p = addr(keys, f[1], f[2], n)
        if p == FAIL:
            return FAIL
        del L[p]
        return L
    if c == "u":
        p = addr(keys, f[1], f[2], n)
        if p == FAIL:
            return FAIL
        name, (u, v, d), ids = L[p]
        if f[3] != "N":
            ids = tuple(dec_ids(f[3][1:]))
        if f[4] != "N":
            u = f[4][1:]
        if f[5] != "N":
            d = f[5][1:]
        if f[6] != "N":
            v = f[6][1:]
        L[p] = (name, (u, v, d), ids)
        return L
    if c == "r":
        z = int(f[1])
        if not -n <= z < n:
            return FAIL
        L[z] = entry(f, 2)
        return L
    if c == "s":
        if f[1] in keys:
            p = keys.index(f[1])
            L[p] = (L[p][0], L[p][1], tuple(dec_ids(f[2])))
            return L
        return L + [(f[1], ("", "", ""), tuple(dec_ids(f[2])))]
    if c == "t":
        if f[1] != shown(f[2]):
            return FAIL
        if f[1] in keys:
            L[keys.index(f[1])] = entry(f, 2)
            return L
        return L + [entry(f, 2)]
    if c == "D":
        names = dec_names(f[2])
        trunc = f[3] == "T"
        if f[1][0] == "1":
            # a 1-D array is no 2-D data array: nothing may change (an empty one is accepted)
            return "unchanged"
        cols = dec_cols(f[1][1:])
        if trunc:
            cols = cols[:n]
        if not cols or not cols[0]:
            return "unchanged"               # an array without elements
        if len(cols) < n:
            return FAIL                      # fewer columns than curves
        L = L + [BLANK] * (len(cols) - n)
        if not names:
            names = [e[0] for e in L]
        names = names + [""] * (len(L) - len(names))
        return [(names[i], L[i][1], tuple(cols[i])) for i in range(len(L))]
    raise ValueError(f)


def snapshot(las):
    cs = list(list.__iter__(las.curves))
    return [(id(c), c.original_mnemonic, c.mnemonic, str(c.unit), str(c.value), str(c.descr), ids_of(c.data)) for c in cs]


def check_views(las, L):
    """Every view of the LASFile against the list L -> list of texts (empty = all agree)."""
    bad = []
    cs = list(list.__iter__(las.curves))
    n = len(L)
    got = [(c.original_mnemonic, (str(c.unit), str(c.value), str(c.descr)), ids_of(c.data)) for c in cs]
    exp = [(e[0], e[1], ".".join(str(i) for i in e[2])) for e in L]
    if got != exp:
        bad.append("curves (name, metadata, array) are %r, the list model has %r" % (got, exp))
        return bad
    keys = las.keys()
    if keys != [c.mnemonic for c in cs]:
        bad.append("keys() %r is not the list of session mnemonics" % (keys,))
    if len(set(keys)) != len(keys):
        bad.append("keys() %r are not pairwise distinct" % (keys,))
    for k, e in zip(keys, L):
        if not (k == shown(e[0]) or re.fullmatch(re.escape(shown(e[0])) + r":[0-9]+", k)):
            bad.append("key %r does not belong to the curve named %r" % (k, e[0]))
    vals = las.values()
    if [ids_of(v) for v in vals] != [x[2] for x in exp]:
        bad.append("values() differ from the arrays of the list model")
    its = las.items()
    if [(k, ids_of(v)) for k, v in its] != [(k, x[2]) for k, x in zip(keys, exp)]:
        bad.append("items() is not zip(keys(), values())")
    # index
    try:
        ix = ids_of(las.index)
        if n == 0 or ix != exp[0][2]:
            bad.append("index is %r" % (ix,))
    except IndexError:
        if n:
            bad.append("index raised IndexError on a non-empty LASFile")
    except Exception as e:      # noqa: BLE001
        bad.append("index raised %s" % exc(e))
    # data: column i is curve i when all lengths agree
    lens = {len(e[2]) for e in L}
    try:
        d = las.data
        if len(lens) > 1:
            bad.append("data is defined although the curves have lengths %r" % (sorted(lens),))
        else:
            r = lens.pop() if lens else 0
            if d.shape != (r, n):
                bad.append("data.shape is %r, expected %r" % (d.shape, (r, n)))
            else:
                for i in range(n):
                    if ids_of(d[:, i]) != exp[i][2]:
                        bad.append("column %d of data is not curve %d" % (i, i))
    except ValueError:
        if len(lens) <= 1:
            bad.append("data raised ValueError although all curves have one length")
    except Exception as e:      # noqa: BLE001
        bad.append("data raised %s" % exc(e))
    # integer indexing, exactly as on a list
    for z in range(-n - 2, n + 2):
        try:
            g = ids_of(las[z])
            if not -n <= z < n or g != exp[z][2]:
                bad.append("las[%d] is %r" % (z, g))
        except IndexError:
            if -n <= z < n:
                bad.append("las[%d] raised IndexError" % z)
        except Exception as e:      # noqa: BLE001
            bad.append("las[%d] raised %s" % (z, exc(e)))
    # mnemonic indexing: key i finds curve i; other names raise KeyError
    for i, k in enumerate(keys):
        try:
            if ids_of(las[k]) != exp[i][2]:
                bad.append("las[%r] is not the array of curve %d" % (k, i))
            if las.get_curve(k) is not cs[i]:
                bad.append("get_curve(%r) is not curve %d" % (k, i))
        except Exception as e:      # noqa: BLE001
            bad.append("las[%r] raised %s" % (k, exc(e)))
    for k in PROBE_KEYS + [x.swapcase() for x in keys]:
        if k in keys:
            continue
        try:
            las[k]
            bad.append("las[%r] succeeds although %r is not a key" % (k, k))
        except KeyError:
            pass
        except Exception as e:      # noqa: BLE001
            bad.append("las[%r] raised %s, not KeyError" % (k, exc(e)))
    return bad


def init_list(init):
    if init == "F":
        return []
    return [(m, (u, v, d), tuple(ids)) for (m, u, v, d, ids) in init[1]]


class Sim:
    """One history on real LASFiles, with the list-model oracle alongside."""

    def __init__(self, inits, oracle=True):
        self.inits = inits
        self.files = [make_las(i) for i in inits]
        self.lists = [init_list(i) for i in inits]
        self.oracle = oracle
        self.violations = []
        self.done = []
        self.shared = False
        if oracle:
            for t, las in enumerate(self.files):
                if inits[t] == "F" and len(las.curves):
                    self.shared = True
                    # state shared between LASFile objects: reproducible as a two-file history
                    self.violations.append({
                        "payload": {"inits": ["F", "F"], "ops": [["0", "a", "A", "u", "v", "d", "1,2,"]]},
                        "what": "a fresh LASFile() already has the curves %r: LASFile objects share state"
                                % (las.keys(),)})
                    self.oracle = False
                    return
                for b in check_views(las, self.lists[t]):
                    self.flag("initial state of file %d: %s" % (t, b))

    def flag(self, what):
        if len(self.violations) < 3:
            self.violations.append({"payload": {"inits": self.inits, "ops": [list(o) for o in self.done]},
                                    "what": "after %s on %s: %s" % (self.done, self.inits, what)})
        # the list model and the LASFile have parted: later steps are still run (for the
        # observation) but no longer judged
        self.oracle = False

    def step(self, op):
        t, f = int(op[0]), op[1:]
        las = self.files[t]
        judged = self.oracle
        if judged:
            keys = las.keys()
            before = snapshot(las)
            others = [snapshot(x) if j != t else None for j, x in enumerate(self.files)]
        r = apply_op(las, f)
        self.done.append(op)
        if not judged:
            return r
        exp = list_step(self.lists[t], keys, f)
        plain = lambda snap: [x[1:] for x in snap]      # noqa: E731  (without the object ids)
        if exp == FAIL:
            if r == "ok":
                self.flag("the call succeeded although the list model rejects it")
            elif r not in [e.__name__ for e in ERRS]:
                self.flag("the call raised %s" % r)
            if snapshot(las) != before:
                self.flag("the call raised %s but changed the curves: %r -> %r" % (r, plain(before), plain(snapshot(las))))
        elif exp == "unchanged":
            after = [s[1:2] + s[3:] for s in snapshot(las)]
            if after != [s[1:2] + s[3:] for s in before]:
                self.flag("an array without elements / of the wrong rank changed the curves (%s)" % r)
        else:
            if r != "ok":
                self.flag("the call raised %s; the list model gives %r" % (r, exp))
                if snapshot(las) != before:
                    self.flag("... and the failed call changed the curves")
            else:
                self.lists[t] = exp
        for j, x in enumerate(self.files):
            if j != t and snapshot(x) != others[j]:
                self.flag("an operation on file %d changed file %d" % (t, j))
        if self.oracle:
            for b in check_views(las, self.lists[t]):
                self.flag(b)
        return r

    def observe(self):
        return "|".join(render_obs(x) for x in self.files)


def enc_init(init):
    if init == "F":
        return "F"
    return FS.join(["R"] + ["/".join([m, u, v, d, enc_ids(ids)]) for (m, u, v, d, ids) in init[1]])


def case_input(inits, ops):
    for o in ops:
        for a in o:
            assert FS not in a and RS not in a, o
    return RS.join([str(len(inits))] + [enc_init(i) for i in inits] + [FS.join(o) for o in ops])


def digest(text):
    a = b = d = 0
    for ch in text:
        a += ord(ch) + 1
        b += a
        d += b
    return "%d.%d.%d" % (a, b, d)


def run_history(inits, ops, oracle=True):
    """-> (case input, observation text, violations)"""
    sim = Sim(inits, oracle)
    lines = [sim.observe()]
    for o in ops:
        r = sim.step(o)
        lines.append(r + "|" + sim.observe())
    return case_input(inits, ops), "\n".join(lines), sim.violations


# ---- operation templates -------------------------------------------------------------------------------------
# positions: ints, or "len", "len+2", "-len-1" resolved against the live curve list
NAMES = ["A", "B", "", "a"]
POS = [0, 1, -1, "len", "len+2"]
NAME_POOL = ["A", "B", "C", "D", "E", "F", "G", "H", "J", "K", "L", "M"]


def full_alphabet():
    ops = [("a", n, 2) for n in NAMES] + [("a", "A", 3)]
    ops += [("i", p, n, 2) for p in POS for n in NAMES]
    ops += [("A", "A"), ("A", ""), ("b",)]
    ops += [("I", p, "A") for p in (0, -1, "len+2")] + [("j", 0)]
    ops += [("d", None, p) for p in POS + ["-len-1"]]
    ops += [("d", k, None) for k in ["A", "A:1", "A:2", "B", "UNKNOWN", "a", "Z"]]
    ops += [("d", None, None), ("d", "A:1", 1)]
    ops += [("u", None, p, "d") for p in (0, -1, "len")]
    ops += [("u", k, None, "u") for k in ["A", "A:1", "B", "Z"]]
    ops += [("u", "A:2", None, "duev"), ("u", "A", 0, "e"), ("u", None, None, "u"), ("u", "B", None, "")]
    ops += [("r", p, n) for p in (0, 1, -1, "len", "-len-1") for n in ("A", "B")]
    ops += [("s", k, 2) for k in ["A", "A:1", "B", "", "a", "UNKNOWN"]] + [("s", "B", 3)]
    ops += [("t", k, m) for (k, m) in [("A", "A"), ("A:1", "A"), ("B", "B"), ("B", "A"), ("UNKNOWN", ""), ("", ""), ("a", "a")]]
    ops += [("D", "len", nm, False, 2) for nm in (None, "empty", "shorter", "equal", "longer", "dup")]
    ops += [("D", "len+1", None, False, 2), ("D", "len+1", None, True, 2), ("D", "len+1", "dup", False, 2),
            ("D", "len+1", "shorter", True, 2), ("D", "len+2", "longer", False, 2), ("D", "len+2", "equal", False, 3),
            ("D", "len-1", None, False, 2), ("D", "len-1", "equal", False, 2), ("D", "len-1", None, True, 2),
            ("D", 0, None, False, 2), ("D", "len+1", "equal", False, 0), ("D", "1d", None, False, 2),
            ("D", "1d", "equal", False, 0), ("D", "1d", None, True, 2)]
    return ops


def mid_alphabet():
    return [("a", "A", 2), ("a", "", 2), ("a", "a", 2), ("i", 0, "A", 2), ("i", -1, "B", 2),
            ("d", None, 0), ("d", None, -1), ("d", "A:1", None), ("d", "A", None),
            ("u", "A:2", None, "du"), ("u", None, -1, "e"),
            ("r", -1, "A"), ("r", 0, "B"), ("s", "A", 2), ("s", "A:1", 2), ("t", "A", "A"), ("t", "B", "A"),
            ("D", "len", "dup", False, 2), ("D", "len+1", None, False, 2), ("D", "len+1", "shorter", True, 2),
            ("D", "len-1", "equal", False, 2), ("D", "len", None, False, 3)]


def small_alphabet():
    return [("a", "A", 2), ("a", "", 2), ("i", 0, "a", 2), ("i", -1, "A", 3), ("d", None, 0), ("d", "A:1", None),
            ("u", "A:2", None, "du"), ("r", -1, "A"), ("s", "A", 2), ("s", "A:1", 2), ("t", "A", "A"),
            ("t", "UNKNOWN", ""), ("D", "len+1", "dup", False, 2), ("D", "len", None, True, 2)]


def micro_alphabet():
    return [("a", "A", 2), ("i", 0, "a", 2), ("d", None, -1), ("d", "A:1", None), ("r", -1, "A"),
            ("s", "A:1", 2), ("t", "A", "A"), ("D", "len+1", "shorter", False, 2)]


def tiny_alphabet():
    return [("a", "A", 2), ("i", 0, "A", 2), ("d", None, -1), ("r", -1, "A"), ("D", "len+1", "dup", True, 2)]


class Gen:
    """Fresh sample ids and metadata tags, so that every array and item is distinguishable."""

    def __init__(self):
        self.n = 0

    def ids(self, r):
        self.n += 1
        return [10 * self.n + j for j in range(r)]

    def tag(self, p):
        self.n += 1
        return "%s%d" % (p, self.n)


def pos_of(p, n):
    if isinstance(p, int):
        return p
    return {"len": n, "len+1": n + 1, "len+2": n + 2, "len-1": n - 1, "-len-1": -n - 1, "-len": -n}[p]


def instantiate(t, target, n, g):
    """template -> concrete operation (list of str), against a curve list of length n"""
    c = t[0]
    T = str(target)

    def item(name, r=2):
        return [name, g.tag("u"), g.tag("v"), g.tag("d"), enc_ids(g.ids(r))]

    if c == "a":
        return [T, "a"] + item(t[1], t[2])
    if c == "A":
        return [T, "A"] + item(t[1])
    if c == "b":
        return [T, "b"]
    if c == "i":
        return [T, "i", str(pos_of(t[1], n))] + item(t[2], t[3])
    if c == "I":
        return [T, "I", str(pos_of(t[1], n))] + item(t[2])
    if c == "j":
        return [T, "j", str(pos_of(t[1], n))]
    if c == "d":
        return [T, "d", enc_opt(t[1]), enc_opt(None if t[2] is None else str(pos_of(t[2], n)))]
    if c == "u":
        what = t[3]
        return [T, "u", enc_opt(t[1]), enc_opt(None if t[2] is None else str(pos_of(t[2], n))),
                enc_opt(enc_ids(g.ids(2)) if "d" in what else None),
                enc_opt(g.tag("U") if "u" in what else None),
                enc_opt(g.tag("E") if "e" in what else None),
                enc_opt(g.tag("W") if "v" in what else None)]
    if c == "r":
        return [T, "r", str(pos_of(t[1], n))] + item(t[2])
    if c == "s":
        return [T, "s", t[1], enc_ids(g.ids(t[2]))]
    if c == "t":
        return [T, "t", t[1]] + item(t[2])
    if c == "D":
        _, w, nm, trunc, r = t
        if w == "1d":
            a = "1" + enc_ids(g.ids(r))
            width = n
        else:
            width = max(pos_of(w, n), 0)
            base = g.ids(1)[0] * 10
            a = "2" + enc_cols([[base + 10 * i + j for j in range(r)] for i in range(width)])
        target_len = max(width, n) if not trunc else n
        names = {None: None, "empty": [], "shorter": NAME_POOL[:max(target_len - 1, 0)] or [""],
                 "equal": NAME_POOL[:target_len], "longer": NAME_POOL[:target_len + 1],
                 "dup": (["A", "B", "A", "A", "a", "B"] * 3)[:max(target_len, 1)]}[nm]
        return [T, "D", a, enc_names(names), "T" if trunc else "F"]
    raise ValueError(t)


READ_INIT = ["R", [("A", "m", "", "da", [1, 2]), ("B", "uu", "vb", "db", [3, 4]), ("A", "", "va", "", [5, 6])]]
READ_INIT2 = ["R", [("", "m", "", "x", [7, 8, 9]), ("C", "", "", "", [4, 5, 6])]]
INITS = {"fresh": "F", "read": READ_INIT, "read2": READ_INIT2}


def play(inits, templates, targets=None, oracle=True, sigs=None):
    """Instantiate the templates one after the other against live LASFiles (positions such as `len` depend on
    the state) and run them.  -> (concrete ops, observation text, Sim)"""
    sim = Sim(inits, oracle)
    g = Gen()
    g.n = 10
    ops = []
    lines = [sim.observe()]
    for j, t in enumerate(templates):
        tgt = targets[j] if targets else 0
        o = instantiate(t, tgt, len(sim.files[tgt].curves), g)
        r = sim.step(o)
        ops.append(o)
        lines.append(r + "|" + sim.observe())
        if sigs is not None:
            sigs.add(state_sig(sim))
    return ops, "\n".join(lines), sim


def build_history(inits, templates, targets=None):
    return play(inits, templates, targets, oracle=False)[0]


def random_template(rng, keys):
    def name():
        return rng.choice(NAMES + ["A", "B", "C", "UNKNOWN", "b"])

    def key():
        if keys and rng.random() < 0.75:
            k = rng.choice(keys)
            return k.swapcase() if rng.random() < 0.15 else k
        return rng.choice(["A", "B", "a", "A:1", "A:2", "UNKNOWN", "UNKNOWN:1", "Z", ""])

    def pos():
        return rng.choice([0, 1, 2, -1, -2, 3, "len", "len+2", "-len-1", "-len", "len-1"])

    r = rng.random()
    if r < 0.18:
        return ("a", name(), rng.choice([2, 2, 2, 3]))
    if r < 0.30:
        return ("i", pos(), name(), rng.choice([2, 2, 2, 3]))
    if r < 0.34:
        return rng.choice([("A", name()), ("I", pos(), name()), ("b",), ("j", pos())])
    if r < 0.44:
        return rng.choice([("d", None, pos()), ("d", key(), None), ("d", key(), pos()), ("d", None, None)])
    if r < 0.56:
        what = "".join(ch for ch in "duev" if rng.random() < 0.4)
        return rng.choice([("u", None, pos(), what), ("u", key(), None, what), ("u", key(), pos(), what)])
    if r < 0.66:
        return ("r", pos(), name())
    if r < 0.76:
        return ("s", key(), rng.choice([2, 2, 3]))
    if r < 0.84:
        k = key()
        base = k.split(":")[0]                  # a CurveItem is named without a generated suffix
        base = "" if base == "UNKNOWN" else base
        return ("t", k, rng.choice([base, base, name(), k if rng.random() < 0.1 else base]))
    w = rng.choice(["len", "len", "len+1", "len+2", "len-1", 0, "1d"])
    return ("D", w, rng.choice([None, "empty", "shorter", "equal", "longer", "dup"]), rng.random() < 0.35,
            rng.choice([2, 2, 2, 3, 0]))


def random_history(rng, max_len, pair, oracle=False, sigs=None):
    """-> (inits, ops, observation text, Sim)"""
    inits = [INITS[rng.choice(["fresh", "read", "read2"])] for _ in range(2 if pair else 1)]
    sim = Sim(inits, oracle)
    g = Gen()
    g.n = 10
    ops = []
    lines = [sim.observe()]
    for _ in range(rng.randint(1, max_len)):
        tgt = rng.randrange(len(inits))
        las = sim.files[tgt]
        o = instantiate(random_template(rng, las.keys()), tgt, len(las.curves), g)
        r = sim.step(o)
        ops.append(o)
        lines.append(r + "|" + sim.observe())
        if sigs is not None:
            sigs.add(state_sig(sim))
    return inits, ops, "\n".join(lines), sim


# ---- the run --------------------------------------------------------------------------------------------------
ALPHABETS = {"full": full_alphabet, "mid": mid_alphabet, "small": small_alphabet, "micro": micro_alphabet,
             "tiny": tiny_alphabet}
SAMPLE_EVERY = 211


def families(ctx):
    """(label, [alphabet per position], init names, pair): ALL histories whose i-th operation is drawn from the
    i-th alphabet"""
    F, M, S, U, T = "full", "mid", "small", "micro", "tiny"
    fams = [("full^1", [F], ["fresh"], False), ("full^1", [F], ["read"], False), ("full^1", [F], ["read2"], False),
            ("full*mid", [F, M], ["read"], False), ("mid*full", [M, F], ["read"], False),
            ("mid^2", [M, M], ["fresh"], False),
            ("small^3", [S] * 3, ["fresh"], False),
            ("micro^4", [U] * 4, ["fresh"], False),
            ("tiny^5", [T] * 5, ["fresh"], False),
            ("pair micro^3", [U] * 3, ["read", "fresh"], True)]
    if ctx.thorough:
        fams += [("full^2", [F, F], ["read"], False), ("full^2", [F, F], ["fresh"], False),
                 ("mid^3", [M] * 3, ["fresh"], False), ("mid^3", [M] * 3, ["read"], False),
                 ("small^4", [S] * 4, ["fresh"], False), ("small^4", [S] * 4, ["read"], False),
                 ("micro^5", [U] * 5, ["fresh"], False), ("tiny^6", [T] * 6, ["fresh"], False),
                 ("tiny^7", [T] * 7, ["fresh"], False),
                 ("pair small^3", [S] * 3, ["read", "fresh"], True), ("pair micro^5", [U] * 5, ["fresh", "fresh"], True),
                 ("pair mid^2", [M] * 2, ["read", "read2"], True)]
    return fams


def state_sig(sim):
    return tuple((tuple((c.original_mnemonic, c.mnemonic, len(np.atleast_1d(c.data))) for c in list.__iter__(x.curves)),
                  x.curves.mnemonic_transforms) for x in sim.files)


def work_chunk(job):
    label, alpha_names, init_names, pair, first = job
    alphas = [ALPHABETS[a]() for a in alpha_names]
    inits = [INITS[i] for i in init_names]
    out = {"label": label, "cases": [], "texts": [], "viol": [], "sigs": set()}
    for rest in itertools.product(*alphas[1:]):
        tm = [alphas[0][first]] + list(rest)
        targets = [j % 2 for j in range(len(tm))] if pair else None
        ops, text, sim = play(inits, tm, targets, sigs=out["sigs"])
        if sim.shared:              # every later LASFile is polluted: stop
            out["viol"] += sim.violations[:1]
            out["abort"] = True
            return out
        if (len(out["cases"]) + first) % SAMPLE_EVERY == 0:
            out["texts"].append((len(out["cases"]), text))
        out["cases"].append((case_input(inits, ops), digest(text)))
        out["viol"] += sim.violations[:2]
    return out


def decode_case(inp):
    recs = inp.split(RS)
    k = int(recs[0])
    inits = []
    for r in recs[1:1 + k]:
        f = r.split(FS)
        if f[0] == "F":
            inits.append("F")
        else:
            cs = []
            for c in f[1:]:
                m, u, v, d, ids = c.split("/")
                cs.append((m, u, v, d, dec_ids(ids)))
            inits.append(["R", cs])
    return inits, [r.split(FS) for r in recs[1 + k:]]


RUN_CASE = "Require Import Items ItemsObs Curves CurvesObs.\nDefinition run (i : list N) : list N := CurvesObs.run_case i.\n"
RUN_DIGEST = "Require Import Items ItemsObs Curves CurvesObs.\nDefinition run (i : list N) : list N := CurvesObs.run_digest i.\n"


def run(ctx):
    import multiprocessing
    import time
    import lasio  # noqa: F401  (imported before forking)
    res = lib.Result()
    t_start = time.time()
    cases, texts, hist = [], {}, {}
    sigs = set()
    jobs = []
    for (label, alpha_names, init_names, pair) in families(ctx):
        for first in range(len(ALPHABETS[alpha_names[0]]())):
            jobs.append((label, alpha_names, init_names, pair, first))
    aborted = False
    with multiprocessing.get_context("fork").Pool(12) as pool:
        for out in pool.imap(work_chunk, jobs, chunksize=1):
            if out.get("abort"):
                res.oracle_violations += out["viol"]
                aborted = True
                pool.terminate()
                break
            base = len(cases)
            cases += out["cases"]
            for (j, t) in out["texts"]:
                texts[base + j] = t
            hist[out["label"]] = hist.get(out["label"], 0) + len(out["cases"])
            sigs |= out["sigs"]
            res.oracle_violations += out["viol"]
    if aborted:
        res.cases = len(cases)
        res.corr_error = "aborted: a fresh LASFile() is not empty (LASFile objects share state)"
        return res
    n_exh = len(cases)
    n_rand = 8000 if ctx.thorough else 600
    for j in range(n_rand):
        pair = j % 3 == 0
        inits, ops, text, sim = random_history(ctx.rng, 30, pair, oracle=True, sigs=sigs)
        if j % 40 == 0:
            texts[len(cases)] = text
        cases.append((case_input(inits, ops), digest(text)))
        label = "random<=30 pair" if pair else "random<=30"
        hist[label] = hist.get(label, 0) + 1
        res.oracle_violations += sim.violations[:2]
    res.cases = len(cases)
    res.extra["impl_and_oracle_s"] = round(time.time() - t_start, 1)
    t_start = time.time()
    res.oracle_violations.sort(key=lambda v: len(v["payload"]["ops"]))      # shortest history first
    if ctx.build.model_ok:
        # the long random histories are spread evenly over the shards
        order = sorted(range(len(cases)),
                       key=lambda i: (i / max(n_exh, 1)) if i < n_exh else ((i - n_exh + 0.5) / max(n_rand, 1)))
        mism, err = lib.run_coq_cases("c14", [], RUN_DIGEST, [cases[i] for i in order], shard=400)
        mism = sorted(order[m] for m in mism)
        res.corr_error = err
        res.extra["coq_digest_s"] = round(time.time() - t_start, 1)
        sample = sorted(texts)
        full = [(cases[i][0], texts[i]) for i in sample]
        for i in mism[:100]:
            if i not in texts:
                inits, ops = decode_case(cases[i][0])
                full.append((cases[i][0], run_history(inits, ops, oracle=False)[1]))
                sample.append(i)
        m2, err2 = lib.run_coq_cases("c14f", [], RUN_CASE, full, shard=8)
        res.corr_error = res.corr_error or err2
        for i in sorted(set(mism) | {sample[i] for i in m2}):
            inits, ops = decode_case(cases[i][0])
            res.mismatches.append({"inits": inits, "ops": ops})
        res.extra["full_text_cases"] = len(full)
    else:
        res.corr_error = "model not built"
    res.extra["coq_s"] = round(time.time() - t_start, 1)
    res.extra["exhaustive_cases"] = n_exh
    res.extra["oracle_violations_in_known_class"] = sum(1 for v in res.oracle_violations if finding_of(v["payload"]))
    res.distinct_nontrivial = len(sigs)
    res.rule = ("histories of operations [append_curve, insert_curve, append/insert_curve_item (also with a non-item), "
                "delete_curve (ix / mnemonic / both / neither), update_curve, replace_curve_item, las[k]=array, "
                "las[k]=CurveItem, set_data] over names {A,B,'',a} (duplicates by repetition), positions "
                "{0,1,-1,len,len+2,-len-1}, keys {A,A:1,A:2,B,UNKNOWN,a,Z,''}, arrays of length 2 (one of 3), 2-D arrays "
                "of width len/len+1/len+2/len-1/0 and with 0 rows, 1-D arrays, names None/[]/shorter/equal/longer/with "
                "duplicates, truncate on/off.  Alphabets: full %d templates, mid %d, small %d, micro %d, tiny %d.  "
                "EXHAUSTIVE (every history whose i-th operation is drawn from the i-th alphabet): %s.  SAMPLED: %d random "
                "histories up to length 30 on one LASFile and on pairs (fresh and read).  The observation of every LASFile "
                "is compared after every step.  distinct_nontrivial = distinct world states (original/session names, "
                "array lengths, flag of every LASFile) reached after some step"
                % (len(full_alphabet()), len(mid_alphabet()), len(small_alphabet()), len(micro_alphabet()),
                   len(tiny_alphabet()),
                   "; ".join("%s on %s" % (f[0], "+".join(f[2])) for f in families(ctx)), n_rand))
    pick = [0, len(cases) // 3, n_exh - 1, len(cases) - 1]
    res.samples = [repr(decode_case(cases[i][0])) [:600] for i in pick]
    res.histogram = hist
    return res


def check_history(inits, ops):
    sim = Sim(inits)
    for o in ops:
        sim.step(o)
        if sim.violations:
            break
    return sim.violations


def replay(payload):
    v = check_history(payload["inits"], payload["ops"])
    if v:
        return True, v[0]["what"]
    return False, "the LASFile(s) agree with the list model after every step of %s" % (payload["ops"],)


def names_in_play(payload):
    """every mnemonic the history brings into a curve list (initial curves, new curves, keys that
    las[k] = array may turn into a new curve, names lists)"""
    out = []
    for init in payload["inits"]:
        if init != "F":
            out += [c[0] for c in init[1]]
    for o in payload["ops"]:
        c = o[1]
        if c in ("a", "A"):
            out.append(o[2])
        elif c in ("i", "I", "r", "t"):
            out.append(o[3])
        elif c == "s":
            out.append(o[2])
        elif c == "D":
            out += [""] + (dec_names(o[3]) or [])      # surplus columns / a short names list give unnamed curves
    return out


def finding_of(payload):
    """The C13 known finding seen from the LASFile: a literal mnemonic u:<k> next to curves named u
    (las["A:1"] = array on a missing key, CurveItem("A:1"), names=["A:1", ...])."""
    from props import items_common as ic
    if ic.has_suffix_clash(names_in_play(payload)):
        return "suffix-clash"
    return None


def search(ctx, res):
    for m in res.mismatches:
        for v in check_history(m["inits"], m["ops"]):
            yield v
    full = full_alphabet()
    for init in ("read", "fresh", "read2"):
        for n in (1, 2):
            for tm in itertools.product(full, repeat=n):
                inits = [INITS[init]]
                for v in check_history(inits, build_history(inits, list(tm))):
                    yield v
    for _ in range(20000):
        inits, ops, _text, sim = random_history(ctx.rng, 30, ctx.rng.random() < 0.3, oracle=True)
        for v in sim.violations:
            yield v
