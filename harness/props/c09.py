"""C09 — reading is invariant under presentation-only changes of the text."""
import re

import lib
import corpus_files
import lasgen
import readmodel as rm

PROP = "C09"
MODEL_TARGETS = ["Corr/ReadShow.vo"]
THEOREMS = ["C09_blank_header", "C09_comment_header", "C09_skipped_header", "C09_blank_data", "C09_comment_data", "C09_sniff_skipped", "C09_sniff_blank", "C09_sniff_comment", "C09_skipped_data", "C09_strip_padding", "C09_strip_idempotent", "C09_strip_blank", "C09_padding_map", "C09_padding_header", "C09_padding_sections", "C09_padding_other", "C09_padding_data", "C09_padding_read", "C09_crlf_strip", "C09_crlf_lines", "C09_crlf_read", "C09_final_newline", "C09_final_newline_read", "C09_tokens_of_lines", "C09_rewrap_tokens", "C09_rewrap_data", "C09_rewrap_data_clean", "C09_rewrap_read", "C09_rewrap_clean_lines", "C09_rewrap_width", "C09_redelimit_space", "C09_redelimit_space_fields", "C09_redelimit_comma", "C09_blocks", "C09_skip_read", "C09_compose", "C09_compose_list", "C09_step_read", "C09_compose_read"]
ASSUMPTIONS = [
    "transformations are applied to files inside the modelled fragment (LAS 1.2/2.0, default read options)",
    "~Other keeps blank lines (they are content), so blank/comment insertion is not claimed there",
]


def split_sections(lines):
    """[(kind letter, title_index, [body line indices])]"""
    secs = []
    cur = None
    for i, ln in enumerate(lines):
        st = ln.strip()
        if st.startswith("~"):
            cur = [st[1:2].upper(), i, []]
            secs.append(cur)
        elif cur is not None:
            cur[2].append(i)
    return secs


def t_insert_blank_or_comment(rng, lines, kinds):
    secs = [s for s in split_sections(lines) if s[0] in kinds]
    if not secs:
        return lines, None
    s = rng.choice(secs)
    pos_choices = [s[1] + 1] + [i + 1 for i in s[2]]
    pos = rng.choice(pos_choices)
    ins = rng.choice(["", "   ", "\t", "# a comment", "#", "   # indented comment", "# 1 2 3 : x.y"])
    return lines[:pos] + [ins] + lines[pos:], "insert %r at line %d of ~%s" % (ins, pos, s[0])


def t_pad_lines(rng, lines):
    out = []
    for ln in lines:
        if rng.random() < 0.3:
            ln = rng.choice(["", " ", "  ", "\t"]) + ln.strip() + rng.choice(["", " ", "   ", "\t"])
        out.append(ln)
    return out, "pad line ends"


def t_data_spacing(rng, lines):
    secs = [s for s in split_sections(lines) if s[0] == "A"]
    out = list(lines)
    for s in secs:
        for i in s[2]:
            st = out[i].strip()
            if st and not st.startswith("#") and '"' not in st and "'" not in st:
                sep = rng.choice([" ", "  ", "\t", "     ", " \t "])
                out[i] = rng.choice(["", " ", "   "]) + sep.join(st.split())
    return out, "re-space data"


def t_header_spacing(rng, lines):
    """change the amount of blanks after the period+unit, around the last colon, and at line ends (never inside fields)"""
    secs = [s for s in split_sections(lines) if s[0] in "VWCP"]
    out = list(lines)
    for s in secs:
        for i in s[2]:
            ln = out[i]
            st = ln.strip()
            if not st or st.startswith("#") or ":" not in st:
                continue
            if rng.random() < 0.5:
                k = st.rfind(":")
                left, right = st[:k], st[k + 1:]
                if s[0] == "P" and (":" in left or ":" in right):
                    continue
                out[i] = left.rstrip() + rng.choice([" ", "   ", " \t"]) + ":" + rng.choice([" ", "  ", ""]) + right.strip()
    return out, "re-space header"


def t_rewrap(rng, lines, las_ncurves, wrapped):
    if not wrapped:
        return lines, None
    secs = [s for s in split_sections(lines) if s[0] == "A"]
    if len(secs) != 1 or not secs[0][2]:
        return lines, None
    s = secs[0]
    toks = []
    for i in s[2]:
        st = lines[i].strip()
        if st.startswith("#"):
            return lines, None
        toks += st.split()
    n = las_ncurves
    if n == 0 or len(toks) % n:
        return lines, None
    k = rng.choice([1, 2, 3, n, max(1, n - 1)])
    new = []
    for a in range(0, len(toks), n):
        step = toks[a:a + n]
        for b in range(0, n, k):
            new.append(" " + " ".join(step[b:b + k]))
    first = s[2][0]
    last = s[2][-1]
    return lines[:first] + new + lines[last + 1:], "re-wrap at %d values per line" % k


def t_redelimit(rng, lines, dlm):
    """re-delimit the data with the declared delimiter, with or without padding blanks"""
    secs = [s for s in split_sections(lines) if s[0] == "A"]
    out = list(lines)
    for s in secs:
        for i in s[2]:
            st = out[i].strip()
            if not st or st.startswith("#"):
                continue
            if dlm == "COMMA":
                parts = [p.strip() for p in st.split(",")]
                sep = rng.choice([",", ", ", " , "])
                out[i] = sep.join(parts)
            elif dlm == "TAB":
                parts = [p.strip() for p in st.split("\t")]
                out[i] = "\t".join(parts)
    return out, "re-delimit (%s)" % dlm


def transform(rng, text, meta):
    eol = "\n"
    lines = text.split("\n")
    final_nl = lines and lines[-1] == ""
    if final_nl:
        lines = lines[:-1]
    notes = []
    for _ in range(rng.randint(1, 6)):
        k = rng.choice(["bh", "bd", "pad", "dsp", "hsp", "crlf", "fnl", "rewrap", "redelim"])
        note = None
        if k == "bh":
            lines, note = t_insert_blank_or_comment(rng, lines, "VWCP" + "".join(meta.get("custom_letters", "")))
        elif k == "bd":
            if meta.get("dlm") in (None, "SPACE"):
                lines, note = t_insert_blank_or_comment(rng, lines, "A")
        elif k == "pad":
            if meta.get("dlm") in (None, "SPACE"):
                lines, note = t_pad_lines(rng, lines)
        elif k == "dsp":
            if meta.get("dlm") in (None, "SPACE"):
                lines, note = t_data_spacing(rng, lines)
        elif k == "hsp":
            lines, note = t_header_spacing(rng, lines)
        elif k == "crlf":
            eol = "\r\n" if eol == "\n" else "\n"
            note = "eol"
        elif k == "fnl":
            final_nl = not final_nl
            note = "final newline"
        elif k == "rewrap":
            lines, note = t_rewrap(rng, lines, meta.get("ncurves", 0), meta.get("wrapped", False))
        elif k == "redelim":
            if meta.get("dlm") in ("COMMA", "TAB"):
                lines, note = t_redelimit(rng, lines, meta["dlm"])
        if note:
            notes.append(note)
    out = eol.join(lines) + (eol if final_nl else "")
    return out, notes


def base_files(ctx):
    rng = ctx.rng
    out = []
    for n, t in corpus_files.corpus():
        out.append(("corpus:" + n, t))
    for i in range(120 if ctx.thorough else 40):
        s = lasgen.basic_spec(rng)
        kind = rng.random()
        if kind < 0.25:
            s.wrap = "YES"
        elif kind < 0.4:
            s.dlm = "COMMA"
        elif kind < 0.5:
            s.dlm = "TAB"
        if rng.random() < 0.3:
            s.custom.append(("~Tops", [("T1", "M", "5", "top"), ("T2", "M", "7.5", "base")]))
            s.order.append(("X", 0))
        if rng.random() < 0.3:
            s.a_pos = 1
        t = lasgen.render(s)[0]
        if s.wrap == "YES":
            # wrap every depth step over lines of 2 values
            head, body = t.split("~ASCII\n")
            rows = [ln.split() for ln in body.strip("\n").split("\n")] if body.strip() else []
            new = []
            for r in rows:
                for b in range(0, len(r), 2):
                    new.append(" " + " ".join(r[b:b + 2]))
            t = head + "~ASCII\n" + "\n".join(new) + "\n"
        out.append(("gen:%d" % i, t))
    return out


def file_meta(text):
    import lasio
    las = lasio.read(text)
    dlm = None
    if "DLM" in las.version:
        dlm = las.version["DLM"].value
    wrapped = "WRAP" in las.version and las.version["WRAP"].value == "YES"
    letters = "".join(k[0].upper() for k in las.sections if k not in ("Version", "Well", "Curves", "Parameter", "Other") and k)
    return {"dlm": dlm, "wrapped": wrapped, "ncurves": len(las.curves), "custom_letters": letters}, rm.show_las(las)


def oracle(base_text, new_text):
    a, _ = rm.impl_read(base_text)
    b, _ = rm.impl_read(new_text)
    if a != b:
        j = next((p for p in range(min(len(a), len(b))) if a[p] != b[p]), 0)
        return "read differs near %r vs %r" % (a[max(0, j - 70):j + 70], b[max(0, j - 70):j + 70])
    return None


INSERTS = ["", "   ", "# a comment", "   # indented comment", "\t# tab-indented comment", "#", "  # 1 2 3 4 5 6 7 8"]


def systematic(rng, text, meta, n):
    """one blank/comment line at the first or last position of a section, for every kind of section and
    every kind of inserted line (sampled): the sites random composition reaches only rarely"""
    lines = text.split("\n")
    final_nl = lines and lines[-1] == ""
    if final_nl:
        lines = lines[:-1]
    secs = [s for s in split_sections(lines) if s[0] != "O" and s[0] != ""]
    if meta.get("dlm") not in (None, "SPACE"):
        pass                        # comment/blank lines in delimited data are skipped before splitting as well
    out = []
    combos = [(s, ins, where) for s in secs for ins in INSERTS for where in ("first", "last")]
    rng.shuffle(combos)
    for s, ins, where in combos[:n]:
        pos = s[1] + 1 if where == "first" or not s[2] else s[2][-1] + 1
        new = lines[:pos] + [ins] + lines[pos:]
        out.append(("\n".join(new) + ("\n" if final_nl else ""), ["insert %r as %s line of ~%s" % (ins, where, s[0])]))
    return out


def run(ctx):
    res = lib.Result()
    rng = ctx.rng
    bases = base_files(ctx)
    per = 12 if ctx.thorough else 3
    cases, meta_l, kinds = [], [], set()
    hist = {}
    for name, text in bases:
        try:
            meta, base_canon = file_meta(text)
        except Exception:
            continue
        variants = [transform(rng, text, meta) for _ in range(per)] + systematic(rng, text, meta, 8 if ctx.thorough else 3)
        for new, notes in variants:
            if not notes:
                continue
            bad = oracle(text, new)
            if bad:
                res.oracle_violations.append({"payload": {"base": text, "new": new, "notes": notes}, "what": "%s %r: %s" % (name, notes, bad)})
            exp, _ = rm.impl_read(new)
            cases.append(rm.coq_case(new, exp))
            meta_l.append((name, new, notes))
            kinds.add((name, tuple(sorted(set(n.split(" ")[0] for n in notes)))))
            for nt in notes:
                k = nt.split(" ")[0]
                hist[k] = hist.get(k, 0) + 1
    if ctx.build.model_ok:
        mism, err = lib.run_coq_cases("c09", [], rm.RUN_READ, cases, shard=40)
        res.corr_error = err
        for i in mism:
            res.mismatches.append({"base": meta_l[i][0], "text": meta_l[i][1], "notes": meta_l[i][2]})
    else:
        res.corr_error = "model not built"
    res.cases = len(cases)
    res.distinct_nontrivial = len(kinds)
    res.rule = ("readable bases (example corpus + generated incl. WRAP=YES, DLM COMMA/TAB, custom sections, inner ~A) x compositions of "
                "1-6 transformations: blank/# line inserted in a header or data section, padding of line ends, re-spacing of data "
                "and of header fields, LF<->CRLF, final newline dropped/added, re-wrap of WRAP=YES data at any tokens-per-line, "
                "re-delimiting with the declared delimiter; non-trivial = distinct (base, set of transformation kinds)")
    res.samples = [repr(meta_l[0][2]), repr(meta_l[-1][2])] if meta_l else []
    res.histogram = hist
    return res


def replay(payload):
    bad = oracle(payload["base"], payload["new"])
    return bad is not None, bad or "ok"


def search(ctx, res):
    import random
    rng = random.Random(ctx.seed + 61)

    class C:
        pass
    c = C()
    c.rng = rng
    c.thorough = True
    for name, text in base_files(c):
        try:
            meta, _ = file_meta(text)
        except Exception:
            continue
        for _ in range(40):
            new, notes = transform(rng, text, meta)
            if notes:
                bad = oracle(text, new)
                if bad:
                    yield {"payload": {"base": text, "new": new, "notes": notes}, "what": "%s %r: %s" % (name, notes, bad)}
                    return
