"""C09 — reading is invariant under presentation-only changes of the text."""
import re

import lib
import corpus_files
import lasgen
import readmodel as rm

PROP = "C09"
MODEL_TARGETS = ["Corr/ReadShow.vo"]
THEOREMS = ["C09_blank_header", "C09_comment_header", "C09_skipped_header", "C09_blank_data", "C09_comment_data", "C09_sniff_skipped", "C09_sniff_blank", "C09_sniff_comment", "C09_skipped_data", "C09_strip_padding", "C09_strip_idempotent", "C09_strip_blank", "C09_padding_map", "C09_padding_header", "C09_padding_sections", "C09_padding_other", "C09_padding_data", "C09_padding_read", "C09_crlf_strip", "C09_crlf_lines", "C09_crlf_read", "C09_final_newline", "C09_final_newline_read", "C09_tokens_of_lines", "C09_rewrap_tokens", "C09_rewrap_data", "C09_rewrap_data_clean", "C09_rewrap_read", "C09_rewrap_clean_lines", "C09_rewrap_width", "C09_redelimit_space", "C09_redelimit_space_fields", "C09_redelimit_comma", "C09_blocks", "C09_skip_read", "C09_compose", "C09_compose_list", "C09_step_read", "C09_compose_read", "C09_inspect_current", "C09_engine_items_current", "C09_engine_array_current", "C09_parse_section_current", "C09_rewrap_width_le", "C09_rewrap_le_weaken", "C09_rewrap_read_le", "C09_lines_alike_data", "C09_alike_of_equiv", "C09_alike_of_streq", "C09_respace_line", "C09_respace_data", "C09_redelimit_comma_unique", "C09_redelimit_read", "C09_respace_block_alike", "C09_header_padding", "C09_header_padding_section", "C09_header_padding_alike", "C09_step_read_ext", "C09_compose_read_ext", "C09_compose_read_ext_list"]
ASSUMPTIONS = [
    "transformations are applied to files inside the modelled fragment (LAS 1.2/2.0; default read options and engine='normal')",
    "~Other keeps blank lines (they are content), so blank/comment insertion is not claimed there",
    "text cells of DLM COMMA/TAB data keep the blanks that pad the field: known finding delimited-text-padding (the class is generated; "
    "its violations are classed only when nothing else differs)",
    "re-wrapping across depth steps (a physical line carrying the tail of step i and the head of step i+1) is generated with at most n "
    "values per line for n curves: a line with MORE values than curves is, by C07, a line of a file with surplus columns (lasio decides "
    "this on a window of the first lines), so such texts are other files, not other presentations",
    "header re-spacing resizes runs of blanks that exist (between mnemonic and period, after the unit, around the last colon); a run is never "
    "created next to the period or removed after the unit, because that would move text between fields; lines where lasio keeps a blank "
    "inside a field by design are left alone ('..' mnemonics such as 'I. RES..OHM-M', the '1000 psi' unit form)",
]


MIN_CORPUS = 50         # example files expected to pass corpus_files.corpus() (71 on the unchanged tree)


def split_sections(lines):
    """[(kind letter, title_index, [body line indices])]"""
    secs = []
    cur = None
    for i, ln in enumerate(lines):
        st = ln.strip()
        if st.startswith("~"):
            cur = [st[1:2].upper(), i, []]
            secs.append(cur)
        elif cur is not None:
            cur[2].append(i)
    return secs


def t_insert_blank_or_comment(rng, lines, kinds):
    secs = [s for s in split_sections(lines) if s[0] in kinds]
    if not secs:
        return lines, None
    s = rng.choice(secs)
    pos_choices = [s[1] + 1] + [i + 1 for i in s[2]]
    pos = rng.choice(pos_choices)
    ins = rng.choice(["", "   ", "\t", "# a comment", "#", "   # indented comment", "# 1 2 3 : x.y"])
    return lines[:pos] + [ins] + lines[pos:], "insert %r at line %d of ~%s" % (ins, pos, s[0])


def t_pad_lines(rng, lines, dlm=None):
    """pad both ends of lines; in DLM COMMA/TAB data only blanks are padding (a tab is the TAB delimiter)"""
    data = set()
    if dlm in ("COMMA", "TAB"):
        for sec in split_sections(lines):
            if sec[0] == "A":
                data |= set(sec[2])
    out = []
    for i, ln in enumerate(lines):
        if rng.random() < 0.3:
            if i in data:
                if ln.strip(" ") and not ln.strip().startswith("#"):
                    ln = rng.choice(["", " ", "  "]) + ln.strip(" ") + rng.choice(["", " ", "   "])
            else:
                ln = rng.choice(["", " ", "  ", "\t"]) + ln.strip() + rng.choice(["", " ", "   ", "\t"])
        out.append(ln)
    return out, "pad line ends"


def t_data_spacing(rng, lines):
    secs = [s for s in split_sections(lines) if s[0] == "A"]
    out = list(lines)
    for s in secs:
        for i in s[2]:
            st = out[i].strip()
            if st and not st.startswith("#") and '"' not in st and "'" not in st:
                sep = rng.choice([" ", "  ", "\t", "     ", " \t "])
                out[i] = rng.choice(["", " ", "   "]) + sep.join(st.split())
    return out, "re-space data"


def t_header_spacing(rng, lines):
    """change the amount of blanks after the period+unit, around the last colon, and at line ends (never inside fields)"""
    secs = [s for s in split_sections(lines) if s[0] in "VWCP"]
    out = list(lines)
    for s in secs:
        for i in s[2]:
            ln = out[i]
            st = ln.strip()
            if not st or st.startswith("#") or ":" not in st:
                continue
            if rng.random() < 0.5:
                k = st.rfind(":")
                left, right = st[:k], st[k + 1:]
                if s[0] == "P" and (":" in left or ":" in right):
                    continue
                out[i] = left.rstrip() + rng.choice([" ", "   ", " \t"]) + ":" + rng.choice([" ", "  ", ""]) + right.strip()
            st = out[i].strip()
            p = st.find(".")
            q = st.find(":")
            if p <= 0 or q < p or ".." in st[:q] or re.match(r"[0-9]+[ \t]", st[p + 1:]):
                continue            # '..' mnemonics and the '1000 psi' unit keep a blank INSIDE a field (ASSUMPTIONS)
            if rng.random() < 0.4:
                # the run of blanks that follows the unit (or the period, when there is no unit), before the first colon
                m = re.compile(r"[ \t]+").search(st, p + 1)
                if m and m.start() < q and m.end() < q + 1 and st[m.end():m.end() + 1] != "":
                    st = st[:m.start()] + rng.choice([" ", "  ", "      ", "\t", " \t "]) + st[m.end():]
                    p = st.find(".")
            if rng.random() < 0.3:
                # an existing run of blanks between a plain mnemonic and the period
                name = st[:p]
                if name.rstrip() != name and name.strip() and not re.search(r"[ \t:]", name.strip()):
                    st = name.rstrip() + rng.choice([" ", "  ", "\t", "    "]) + st[p:]
            out[i] = st
    return out, "re-space header"


def t_rewrap(rng, lines, las_ncurves, wrapped):
    if not wrapped:
        return lines, None
    secs = [s for s in split_sections(lines) if s[0] == "A"]
    if len(secs) != 1 or not secs[0][2]:
        return lines, None
    s = secs[0]
    toks = []
    for i in s[2]:
        st = lines[i].strip()
        if st.startswith("#"):
            return lines, None
        toks += st.split()
    n = las_ncurves
    if n == 0 or len(toks) % n:
        return lines, None
    k = rng.choice([1, 2, 3, n, max(1, n - 1)])
    new = []
    for a in range(0, len(toks), n):
        step = toks[a:a + n]
        for b in range(0, n, k):
            new.append(" " + " ".join(step[b:b + k]))
    first = s[2][0]
    last = s[2][-1]
    return lines[:first] + new + lines[last + 1:], "re-wrap at %d values per line" % k


def t_rewrap_cross(rng, lines, las_ncurves, wrapped):
    """re-wrap the whole token stream of a WRAP=YES data section at arbitrary token boundaries: a physical line may carry the tail of one
    depth step and the head of the next; never more than n values on a line (ASSUMPTIONS)"""
    if not wrapped:
        return lines, None
    secs = [s for s in split_sections(lines) if s[0] == "A"]
    if len(secs) != 1 or not secs[0][2]:
        return lines, None
    s = secs[0]
    toks = []
    for i in s[2]:
        st = lines[i].strip()
        if st.startswith("#"):
            return lines, None
        toks += st.split()
    n = las_ncurves
    if n == 0 or len(toks) % n:
        return lines, None
    fixed = rng.choice([None, None] + [k for k in range(1, n + 1)])
    new, a = [], 0
    while a < len(toks):
        c = fixed or rng.randint(1, n)
        new.append(rng.choice([" ", "", "  "]) + rng.choice([" ", "  ", "\t"]).join(toks[a:a + c]))
        a += c
    first, last = s[2][0], s[2][-1]
    return lines[:first] + new + lines[last + 1:], "re-wrap-cross (%s values per line, steps share lines)" % (fixed or "1..%d" % n)


def t_redelimit(rng, lines, dlm):
    """re-delimit the data with the declared delimiter, with or without padding blanks"""
    secs = [s for s in split_sections(lines) if s[0] == "A"]
    out = list(lines)
    for s in secs:
        for i in s[2]:
            st = out[i].strip()
            if not st or st.startswith("#"):
                continue
            if dlm == "COMMA":
                parts = [p.strip() for p in st.split(",")]
                sep = rng.choice([",", ", ", " , "])
                out[i] = sep.join(parts)
            elif dlm == "TAB":
                parts = [p.strip(" ") for p in out[i].strip(" ").split("\t")]
                sep = rng.choice(["\t", "\t", " \t", "\t ", " \t "])
                out[i] = sep.join(parts)
    return out, "re-delimit (%s)" % dlm


def transform(rng, text, meta):
    eol = "\n"
    lines = text.split("\n")
    final_nl = lines and lines[-1] == ""
    if final_nl:
        lines = lines[:-1]
    notes = []
    for _ in range(rng.randint(1, 6)):
        k = rng.choice(["bh", "bd", "pad", "dsp", "hsp", "crlf", "fnl", "rewrap", "rewrapx", "redelim"])
        note = None
        if k == "bh":
            lines, note = t_insert_blank_or_comment(rng, lines, "VWCP" + "".join(meta.get("custom_letters", "")))
        elif k == "bd":
            if meta.get("dlm") in (None, "SPACE"):
                lines, note = t_insert_blank_or_comment(rng, lines, "A")
        elif k == "pad":
            lines, note = t_pad_lines(rng, lines, meta.get("dlm"))
        elif k == "dsp":
            if meta.get("dlm") in (None, "SPACE"):
                lines, note = t_data_spacing(rng, lines)
        elif k == "hsp":
            lines, note = t_header_spacing(rng, lines)
        elif k == "crlf":
            eol = "\r\n" if eol == "\n" else "\n"
            note = "eol"
        elif k == "fnl":
            final_nl = not final_nl
            note = "final newline"
        elif k == "rewrap":
            lines, note = t_rewrap(rng, lines, meta.get("ncurves", 0), meta.get("wrapped", False))
        elif k == "rewrapx":
            lines, note = t_rewrap_cross(rng, lines, meta.get("ncurves", 0), meta.get("wrapped", False))
        elif k == "redelim":
            if meta.get("dlm") in ("COMMA", "TAB"):
                lines, note = t_redelimit(rng, lines, meta["dlm"])
        if note:
            notes.append(note)
    out = eol.join(lines) + (eol if final_nl else "")
    return out, notes


def base_files(ctx):
    rng = ctx.rng
    out = []
    for n, t in corpus_files.corpus():
        out.append(("corpus:" + n, t))
    for i in range(120 if ctx.thorough else 40):
        s = lasgen.basic_spec(rng)
        kind = rng.random()
        if kind < 0.25:
            s.wrap = "YES"
        elif kind < 0.4:
            s.dlm = "COMMA"
        elif kind < 0.5:
            s.dlm = "TAB"
        if rng.random() < 0.3:
            s.custom.append(("~Tops", [("T1", "M", "5", "top"), ("T2", "M", "7.5", "base")]))
            s.order.append(("X", 0))
        if rng.random() < 0.3:
            s.a_pos = 1
        if rng.random() < 0.2 and len(s.rows[0]) > 1 and (DELIMITED_TEXT_PADDING or s.dlm not in ("COMMA", "TAB")):
            # a text column (not the index)
            j = rng.randrange(1, len(s.rows[0]))
            for row in s.rows:
                row[j] = rng.choice(["sand", "shale", "N/A", "x1", "A-2"])
        t = lasgen.render(s)[0]
        if s.wrap == "YES":
            # wrap every depth step over lines of 2 values
            head, body = t.split("~ASCII\n")
            blines = body.split("\n")
            nd = next((i for i, ln in enumerate(blines) if ln.startswith("~")), len(blines))      # ~A may be an inner section
            data, tail = blines[:nd], blines[nd:]
            rows = [ln.split() for ln in data if ln.strip()]
            new = []
            for r in rows:
                for b in range(0, len(r), 2):
                    new.append(" " + " ".join(r[b:b + 2]))
            t = head + "~ASCII\n" + "\n".join(new + tail)
            if not t.endswith("\n"):
                t += "\n"
        out.append(("gen:%d" % i, t))
    return out


def file_meta(text):
    import lasio
    las = lasio.read(text)
    dlm = None
    if "DLM" in las.version:
        dlm = las.version["DLM"].value
    wrapped = "WRAP" in las.version and las.version["WRAP"].value == "YES"
    letters = "".join(k[0].upper() for k in las.sections if k not in ("Version", "Well", "Curves", "Parameter", "Other") and k)
    return {"dlm": dlm, "wrapped": wrapped, "ncurves": len(las.curves), "custom_letters": letters,
            "text_column": any(c.data.dtype.kind in "US" for c in las.curves)}, rm.show_las(las)


ENGINES = ("numpy", "normal")

# text cells of DLM COMMA / DLM TAB data keep the padding blanks around the delimiter (reported to main): the class "text column in a
# COMMA/TAB base + padding / re-delimiting" is generated only when this is True; its oracle messages start with the tag
DELIMITED_TEXT_PADDING = True
DELIMITED_TEXT_TAG = "DELIMITED-TEXT-PADDING:"


def strip_text_cells(canon):
    """the canonical dump with every text cell of the data record stripped"""
    parts = canon.split(rm.RS)
    if len(parts) > 7:
        # the data record is the last but one (custom sections add records before it)
        parts[-2] = rm.IS.join(rm.FS.join(("s:" + c[2:].strip()) if c.startswith("s:") else c for c in col.split(rm.FS))
                               for col in parts[-2].split(rm.IS))
    return rm.RS.join(parts)


def oracle(base_text, new_text, engines=ENGINES, strip_text=False):
    for e in engines:
        a, _ = rm.impl_read(base_text, engine=e)
        b, _ = rm.impl_read(new_text, engine=e)
        if strip_text:
            a, b = strip_text_cells(a), strip_text_cells(b)
        if a != b:
            j = next((p for p in range(min(len(a), len(b))) if a[p] != b[p]), 0)
            return "read (engine=%r) differs near %r vs %r" % (e, a[max(0, j - 70):j + 70], b[max(0, j - 70):j + 70])
    return None


INSERTS = ["", "   ", "# a comment", "   # indented comment", "\t# tab-indented comment", "#", "  # 1 2 3 4 5 6 7 8"]


def systematic(rng, text, meta, n):
    """one blank/comment line at the first or last position of a section, for every kind of section and
    every kind of inserted line (sampled): the sites random composition reaches only rarely"""
    lines = text.split("\n")
    final_nl = lines and lines[-1] == ""
    if final_nl:
        lines = lines[:-1]
    secs = [s for s in split_sections(lines) if s[0] != "O" and s[0] != ""]
    if meta.get("dlm") not in (None, "SPACE"):
        pass                        # comment/blank lines in delimited data are skipped before splitting as well
    out = []
    combos = [(s, ins, where) for s in secs for ins in INSERTS for where in ("first", "last")]
    rng.shuffle(combos)
    # directed: in delimited / wrapped / text-column data a blanks-only, an empty and an indented comment line at both ends of
    # ~A are always tried (the normal engine splits such lines with the declared delimiter; seeded change C09_2 lives there)
    directed = []
    if meta.get("dlm") in ("COMMA", "TAB") or meta.get("wrapped") or meta.get("text_column"):
        directed = [(s, ins, where) for s in secs if s[0] == "A" for ins in ("   ", "", "\t", "   # indented comment")
                    for where in ("first", "last")]
    for s, ins, where in directed + combos[:n]:
        pos = s[1] + 1 if where == "first" or not s[2] else s[2][-1] + 1
        new = lines[:pos] + [ins] + lines[pos:]
        out.append(("\n".join(new) + ("\n" if final_nl else ""), ["insert %r as %s line of ~%s" % (ins, where, s[0])]))
    return out


def run(ctx):
    res = lib.Result()
    rng = ctx.rng
    bases = base_files(ctx)
    per = 12 if ctx.thorough else 3
    cases, meta_l, kinds = [], [], set()
    hist = {}
    n_corpus = sum(1 for n, _ in bases if n.startswith("corpus:"))
    unreadable = []
    for name, text in bases:
        try:
            meta, base_canon = file_meta(text)
        except Exception as e:
            unreadable.append("%s: %s" % (name, type(e).__name__))
            continue
        variants = [transform(rng, text, meta) for _ in range(per)] + systematic(rng, text, meta, 8 if ctx.thorough else 3)
        if meta.get("wrapped"):
            # every wrapped base is re-wrapped per depth step and across depth steps at least once
            blines = text.split("\n")
            fnl = blines and blines[-1] == ""
            blines = blines[:-1] if fnl else blines
            for f in (t_rewrap, t_rewrap_cross, t_rewrap_cross):
                nl, note = f(rng, blines, meta.get("ncurves", 0), True)
                variants.append(("\n".join(nl) + ("\n" if fnl else ""), [note] if note else []))
        for new, notes in variants:
            if not notes:
                continue
            bad = oracle(text, new)
            if bad and meta.get("text_column") and meta.get("dlm") in ("COMMA", "TAB"):
                bad = DELIMITED_TEXT_TAG + " " + bad
            if bad:
                res.oracle_violations.append({"payload": {"base": text, "new": new, "notes": notes}, "what": "%s %r: %s" % (name, notes, bad)})
            exp, _ = rm.impl_read(new)
            cases.append(rm.coq_case(new, exp))
            meta_l.append((name, new, notes))
            if rng.random() < 0.25:
                # the reference engine on the same presentation
                exp, _ = rm.impl_read(new, engine="normal")
                cases.append(rm.coq_case(new, exp, engine="normal"))
                meta_l.append((name, new, notes + ["engine=normal"]))
                hist["engine=normal"] = hist.get("engine=normal", 0) + 1
            kinds.add((name, tuple(sorted(set(n.split(" ")[0] for n in notes)))))
            for nt in notes:
                k = nt.split(" ")[0]
                hist[k] = hist.get(k, 0) + 1
            if meta.get("dlm") in ("COMMA", "TAB") and any(nt.startswith(("pad", "re-delimit")) for nt in notes):
                hist["delimited+pad/re-delimit"] = hist.get("delimited+pad/re-delimit", 0) + 1
            if meta.get("text_column"):
                hist["text_column_base"] = hist.get("text_column_base", 0) + 1
    if ctx.build.model_ok:
        mism, err = lib.run_coq_cases("c09", [], rm.RUN_READ, cases, shard=40)
        res.corr_error = err
        for i in mism:
            res.mismatches.append({"base": meta_l[i][0], "text": meta_l[i][1], "notes": meta_l[i][2]})
    else:
        res.corr_error = "model not built"
    # a class of readable bases that turns unreadable must not shrink the sample silently
    if unreadable or n_corpus < MIN_CORPUS:
        res.corr_error = ((res.corr_error + "; ") if res.corr_error else "") + \
            ("%d base file(s) built/filtered as readable could not be read (%s); %d example files passed the corpus filter (expected >= %d)"
             % (len(unreadable), "; ".join(unreadable[:3]), n_corpus, MIN_CORPUS))
    res.cases = len(cases)
    res.distinct_nontrivial = len(kinds)
    res.rule = ("readable bases (example corpus + generated incl. WRAP=YES, DLM COMMA/TAB, custom sections, inner ~A) x compositions of "
                "1-6 transformations: blank/# line inserted in a header or data section, padding of line ends, re-spacing of data "
                "and of header fields (mnemonic-period, unit-value, around the last colon), LF<->CRLF, final newline dropped/added, "
                "re-wrap of WRAP=YES data per depth step at any tokens-per-line and across depth steps at any token boundary (at most n "
                "values per line), re-delimiting with the declared delimiter with or without padding blanks; text columns; each variant "
                "read with both engines (oracle) and a quarter of them with engine='normal' through the model too; non-trivial = distinct "
                "(base, set of transformation kinds)")
    res.samples = [repr(meta_l[0][2]), repr(meta_l[-1][2])] if meta_l else []
    res.histogram = hist
    return res


def replay(payload):
    bad = oracle(payload["base"], payload["new"])
    return bad is not None, bad or "ok"


def finding_of(payload):
    """delimited-text-padding: the base declares DLM COMMA or TAB and has a text column, the transformation list holds a pad / re-delimit
    step, the oracle fails, and it passes once text cells are compared after strip() (any other difference is another violation)"""
    try:
        meta, _ = file_meta(payload["base"])
        if meta.get("dlm") not in ("COMMA", "TAB") or not meta.get("text_column"):
            return None
        if not any(str(n).startswith(("pad", "re-delimit")) for n in payload.get("notes", [])):
            return None
        if oracle(payload["base"], payload["new"]) is None:
            return None
        if oracle(payload["base"], payload["new"], strip_text=True) is None:
            return "delimited-text-padding"
    except Exception:
        return None
    return None


def search(ctx, res):
    import random
    rng = random.Random(ctx.seed + 61)

    class C:
        pass
    c = C()
    c.rng = rng
    c.thorough = True
    for name, text in base_files(c):
        try:
            meta, _ = file_meta(text)
        except Exception:
            continue
        for _ in range(40):
            new, notes = transform(rng, text, meta)
            if notes:
                bad = oracle(text, new)
                if bad:
                    yield {"payload": {"base": text, "new": new, "notes": notes}, "what": "%s %r: %s" % (name, notes, bad)}
