"""C02 — fast (numpy) and reference (normal) data engines return identical curves."""
import lib
import lasgen
import readmodel as rm

PROP = "C02"
MODEL_TARGETS = ["Corr/ReadShow.vo"]
THEOREMS = ["C02_numpy_spec", "C02_normal_spec", "C02_agree", "C02_sub_identity", "C02_nomatch_is_search", "C02_sow_is_split", "C02_sow_current", "C02_sniff", "C02_read_one_data", "C02_read_engines_agree", "C02_read_agree", "C02_inspect_current", "C02_inspect_twice_current", "C02_read_policy_current", "C02_engine_array_current", "C02_line_splitter_current"]
ASSUMPTIONS = [
    "numpy.genfromtxt(lines, names=None, unpack=True, loose=False, ndmin=2) behaves as Model/DataRead.v genfromtxt_rows/numpy_engine "
    "(text after '#' dropped, blank lines skipped, white-space split, every token float()-able, constant column count, else raise)",
    "float(token) oracle: identical tokens denote identical doubles in both engines",
]


# spellings whose conversion could differ between float() (genfromtxt) and numpy.float64() + astype (normal engine): missing integer /
# fraction part, leading zeros, more digits than a double holds, denormals, overflow to inf, underflow to 0, signed zero
SPECIAL_TOKENS = ["-.5", "1.e3", "1e5", "00012", "0000.5000", "+.5e-3", "1E5", "0.1234567890123456789", "123456789012345678901234567890",
                  "9007199254740993", "0.30000000000000004", "4.9e-324", "1e-320", "2.2250738585072014e-308", "1.7976931348623157e308",
                  "1e400", "-1e400", "1e-400", "-0.0", "-0", "3.141592653589793238462643383279", "2.5e-5", "179769313486231580793728971405303415079934132710037826936173778980444968292764750946649017977587207096330286416692887910946555547851940402630657488671505820681908902000708383676273854845817711531764475730270069855571366959622842914819860834936475292719074168444365510704342711559699508093042880177904174497791.9"]


def gen_case(rng):
    s = lasgen.basic_spec(rng, ncurves=rng.choice([1, 1, 2, 3, 5, 8]), nrows=rng.choice([1, 1, 2, 3, 7, 25]))
    nc = len(s.rows[0])
    # declared curve count may differ from the column count
    d = rng.choice([nc, nc, nc, max(0, nc - 1), nc + 1, nc + 2])
    names = ["C%d" % i for i in range(d)]
    s.curves = [(names[i], "", "", "") for i in range(d)]
    s.wrap = "NO"
    s.null = rng.choice(["-999.25", "-9999", "0", None])
    # null-valued and negative cells
    for row in s.rows:
        for j in range(len(row)):
            r = rng.random()
            if r < 0.1 and s.null:
                row[j] = s.null
            elif r < 0.2:
                row[j] = "-" + row[j].lstrip("+-")
    if rng.random() < 0.35:
        for row in s.rows:
            for j in range(len(row)):
                if rng.random() < 0.3:
                    row[j] = rng.choice(SPECIAL_TOKENS)
        s._special = True
    # every row negative somewhere (hyphen on every line) in some files
    if rng.random() < 0.3:
        for row in s.rows:
            row[-1] = "-" + row[-1].lstrip("+-")
    s.order = ["W", "C"] + rng.sample(["P", "O"], rng.randint(0, 2))
    rng.shuffle(s.order)
    ci = s.order.index("C")
    s.a_pos = rng.choice([None, None] + list(range(ci, len(s.order))))
    if rng.random() < 0.3:
        s.custom.append(("~Tops", [("T1", "M", "5", "top")]))
        s.order.append(("X", 0))
    s.eol = rng.choice(["\n", "\n", "\r\n"])
    s.final_newline = rng.random() < 0.7
    s.data_pad = (rng.choice(["", " ", "   ", "\t"]), rng.choice([" ", "  ", "\t", " \t "]))
    # a declared delimiter: DLM TAB with columns aligned by runs of tabs, or DLM SPACE spelled out
    r = rng.random()
    if r < 0.2:
        s.dlm = "TAB"
        s.tab_sep = rng.choice(["\t", "\t\t", "\t\t\t", "\t"])
    elif r < 0.3:
        s.dlm = "SPACE"
    # blank and comment lines at every kind of position in ~A
    extras = []
    nrows = len(s.rows)
    for pos in range(nrows + 1):
        r = rng.random()
        if r < 0.12:
            extras.append((pos, rng.choice(["", "   ", "\t"])))
        elif r < 0.24:
            extras.append((pos, rng.choice(["#comment", "  # indented comment", "#", "# 1 2 3"])))
    if rng.random() < 0.25:
        extras.append((nrows, rng.choice(["", "#last"])))
    if rng.random() < 0.15:
        extras.append((0, rng.choice(["", "#first"])))
    s.extra_lines["A"] = extras
    # trailing padding on data lines (blanks; tabs too unless the tab is the delimiter)
    if rng.random() < 0.4:
        for row in s.rows:
            if rng.random() < 0.6:
                row[-1] = row[-1] + rng.choice([" ", "   "] if s.dlm == "TAB" else [" ", "   ", "\t", " \t "])
        s._rpad = True
    return s


def oracle(text):
    import lasio
    res = {}
    for e in ("numpy", "normal"):
        try:
            las = lasio.read(text, engine=e)
            res[e] = (rm.show_las(las), getattr(las, "_verif_engine_trace", None))
        except Exception as ex:
            res[e] = ("EXC " + type(ex).__name__, None)
    if res["numpy"][0] != res["normal"][0]:
        a, b = res["numpy"][0], res["normal"][0]
        k = next((i for i in range(min(len(a), len(b))) if a[i] != b[i]), min(len(a), len(b)))
        return "engines differ at offset %d: numpy %r vs normal %r" % (k, a[max(0, k - 40):k + 60], b[max(0, k - 40):k + 60]), res
    if res["numpy"][0].startswith("EXC"):
        return "both engines raise %s on an in-domain file" % res["numpy"][0], res
    if res["numpy"][1] != ["numpy"]:
        return "fast path not taken on an in-domain file (trace %r)" % (res["numpy"][1],), res
    return None, res


def run(ctx):
    res = lib.Result()
    rng = ctx.rng
    n = 8000 if ctx.thorough else 500
    cases, meta = [], []
    shapes = set()
    hist = {"a_inner": 0, "blank_or_comment_in_A": 0, "last_line_blank_or_comment": 0, "crlf": 0, "no_final_newline": 0,
            "single_row": 0, "single_column": 0, "one_by_one": 0, "declared_ne_columns": 0, "numpy_path": 0}
    for _ in range(n):
        s = gen_case(rng)
        text, layout = lasgen.render(s)
        bad, r = oracle(text)
        if bad:
            res.oracle_violations.append({"payload": {"text": text}, "what": bad})
        for e in ("numpy", "normal"):
            exp, las = rm.impl_read(text, with_engine=True, engine=e)
            cases.append(rm.coq_case(text, exp, engine=e, show_engine=True))
            meta.append((text, e))
        nr, nc = len(s.rows), len(s.rows[0])
        ex = s.extra_lines.get("A", [])
        a_inner = s.a_pos is not None and s.a_pos < len(s.order) - 1
        shapes.add((min(nr, 3), min(nc, 3), len(s.curves) - nc, a_inner, bool(ex), s.eol, s.final_newline,
                    any(p >= nr for p, _ in ex), any(p == 0 for p, _ in ex)))
        hist["a_inner"] += a_inner
        hist["blank_or_comment_in_A"] += bool(ex)
        hist["last_line_blank_or_comment"] += any(p >= nr for p, _ in ex)
        hist["crlf"] += s.eol == "\r\n"
        hist["no_final_newline"] += not s.final_newline
        hist["single_row"] += nr == 1
        hist["single_column"] += nc == 1
        hist["one_by_one"] += nr == 1 and nc == 1
        hist["declared_ne_columns"] += len(s.curves) != nc
        hist["numpy_path"] += r["numpy"][1] == ["numpy"]
        hist["special_spellings"] = hist.get("special_spellings", 0) + bool(getattr(s, "_special", False))
        hist["trailing_padding"] = hist.get("trailing_padding", 0) + bool(getattr(s, "_rpad", False))
    if ctx.build.model_ok:
        mism, err = lib.run_coq_cases("c02", [], rm.RUN_READ, cases, shard=100)
        res.corr_error = err
        for i in mism:
            res.mismatches.append({"text": meta[i][0], "engine": meta[i][1]})
    else:
        res.corr_error = "model not built"
    res.cases = len(cases)
    res.distinct_nontrivial = len(shapes)
    res.rule = ("files with WRAP NO whose ~A holds r x c plain decimal numbers (ints, fixed, exponent, signed, .5, 5., -.5, 1.e3, leading "
                "zeros, long mantissas, denormals, 1e400, 1e-400, -0) with leading and trailing blank/tab padding, blank and '#' lines at every position incl. first/last line of the section, ~A last or followed by "
                "~P/~O/custom, LF/CRLF, with/without final newline, declared curve count <,=,> column count, NULL cells; each "
                "file read with both engines; non-trivial = distinct layout class (rows, cols, d-c, ~A inner, extras, eol, final "
                "newline, extra line last/first) and the engine trace says the numpy path produced the data")
    res.samples = [meta[0][0][-300:], meta[len(meta) // 2][0][-300:]]
    res.histogram = hist
    res.extra["fast_path_exercised"] = hist["numpy_path"]
    return res


def replay(payload):
    bad, _ = oracle(payload["text"])
    return bad is not None, bad or "ok"


def search(ctx, res):
    import random
    for m in res.mismatches:
        bad, _ = oracle(m["text"])
        if bad:
            yield {"payload": {"text": m["text"]}, "what": bad}
            return
    rng = random.Random(ctx.seed + 5)
    for _ in range(30000):
        text, _ = lasgen.render(gen_case(rng))
        bad, _ = oracle(text)
        if bad:
            yield {"payload": {"text": text}, "what": bad}
            return
