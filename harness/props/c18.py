"""C18 — JSON, CSV, Excel, DataFrame and depth views carry the same values as the curves.

One case = (a LASFile, a view, the view's options).  The LASFile is built from a JSON-able
spec (from scratch / read from generated text / read from an example file), the REAL lasio
produces the view, the view is canonicalised into a string and compared inside Coq with the
rendering of Model/Export.v applied to the state of that same LASFile object.  Independently the
direct oracle of each view, written from the property statement, is evaluated on what lasio
produced.

Oracle tables handed to the model per case (computed by CPython for exactly the values in the
case): str() of each finite double, the double of each integer (Excel), str.upper of each unit /
mnemonic, the exact rational of each index sample (depth).
"""
import csv
import io
import json
import math
import os
import random
import shutil
import tempfile
from fractions import Fraction

import numpy as np

import lib

PROP = "C18"
MODEL_TARGETS = ["Model/Export.vo"]
THEOREMS = ["C18_json_strict", "C18_json_values", "C18_json_value_map", "C18_csv_rows", "C18_csv_header",
            "C18_excel_rows", "C18_df", "C18_df_roundtrip", "C18_df_roundtrip_norows", "C18_units_places",
            "C18_units_recognised", "C18_units_recognised_all", "C18_units_table_disjoint", "C18_units_listed",
            "C18_units_recognised_ascii_case", "C18_units_conflict",
            "C18_units_unrecognised", "C18_units_table_current", "C18_depth_consistent",
            "C18_json_value_current", "C18_json_sample_current"]
ASSUMPTIONS = [
    "oracle: the json module serialises str/int/float/None/dict/list natively, sends other objects to "
    "JSONEncoder.default, writes a float with float.__repr__ and json.loads reads that text back as the same "
    "double (checked bit-exactly per case); JSON has no infinity: +/-inf is emitted as null like NaN",
    "oracle: csv.writer writes str(cell) for every cell and csv.reader (same dialect) returns those texts; "
    "str(np.float64 x) == repr(float(x)) and float(str(x)) == x (checked per case)",
    "oracle: numpy vstack/T build the matrix M[i][j] = column j at i; with a text curve present numpy casts "
    "every cell to its str() text",
    "oracle: openpyxl stores str cell values verbatim and a number x as '%.16g' % x (16 significant digits; "
    "openpyxl.compat.strings.safe_string), and returns them on load_workbook; '' / None / NaN / +-inf read back as "
    "an empty cell (so an infinite sample is NOT in the workbook: known finding excel-inf)",
    "oracle: pandas.DataFrame(matrix, columns=names), set_index(name), .index/.columns/.values return what they "
    "were given; astype(float64) of a string column returns the doubles whose str() the cells are",
    "oracle: str.upper (instantiated per case by a table computed by CPython); for the statement about ASCII "
    "case variants the hypothesis is that str.upper maps a-z to A-Z and leaves other ASCII characters alone",
    "float rounding in depth_m / depth_ft: the identity depth_m = depth_ft * 381/1250 is exact in Q (proved); "
    "the float64 results are compared with the exact values and with each other within 4 ulp",
    "domain: header values are str / int / numpy integer / float (incl. numpy floating, NaN, +/-inf) / None; "
    "curve samples are float64 (incl. NaN, +/-inf) or text; session mnemonics within a section are pairwise "
    "distinct (C13's business) where a theorem needs it",
]

REPO = lib.REPO
FS, RS = lib.FS, lib.RS
US, IS, SS, VS = "\x01", "\x02", "\x03", "\x04"      # never occur in the generated texts (chk_text)
SEPS = FS + RS + US + IS + SS + VS


class Unsupported(Exception):
    """the LASFile holds a value outside the modelled domain (the case is skipped)"""


def pl(sep, xs):
    return "".join(sep + x for x in xs)


def _boom(c):
    raise ValueError("non-JSON constant " + c)


def strict_loads(text):
    return json.loads(text, parse_constant=_boom)


# ------------------------------------------------------------------------------------------
# building a LASFile from a spec
def mk_value(spec):
    k = spec[0]
    if k == "s":
        return spec[1]
    if k == "i":
        return int(spec[1])
    if k == "ni":
        return np.int64(int(spec[1]))
    if k == "f":
        return float.fromhex(spec[1])
    if k == "nf":
        return np.float64(float.fromhex(spec[1]))
    if k == "nan":
        return float("nan")
    if k == "nnan":
        return np.float64("nan")
    if k == "inf":
        return float("inf")
    if k == "-inf":
        return float("-inf")
    if k == "none":
        return None
    raise ValueError(spec)


def mk_sample_array(samples):
    if any(s[0] == "onan" for s in samples):
        # round 7 (C18_5): an object-dtype text curve with a missing sample (a float NaN among str objects)
        return np.array([s[1] if s[0] == "t" else float("nan") if s[0] == "onan" else mk_value(s) for s in samples], dtype=object)
    if any(s[0] == "t" for s in samples):
        return np.array([s[1] if s[0] == "t" else repr(mk_value(s)) for s in samples])
    return np.array([mk_value(s) for s in samples], dtype=np.float64)


def build(spec):
    import lasio
    from lasio import HeaderItem, SectionItems
    src = spec["src"]
    if src == "file":
        las = lasio.read(os.path.join(REPO, spec["path"]), **spec.get("kw", {}))
    elif src == "text":
        las = lasio.read(spec["text"], **spec.get("kw", {}))
    elif src == "build":
        las = lasio.LASFile()
        if spec.get("bare"):
            for sec in ("Version", "Well", "Parameter"):
                las.sections[sec] = SectionItems()
        for sec in ("Version", "Well", "Parameter"):
            for m, u, v, d in spec.get("items", {}).get(sec, []):
                las.sections[sec].append(HeaderItem(m, u, mk_value(v), d))
        for m, u, v, d, samples in spec.get("curves", []):
            las.append_curve(m, mk_sample_array(samples), unit=u, descr=d, value=v)
        las.other = spec.get("other", "")
        for name, body in spec.get("extra", []):
            if isinstance(body, str):
                las.sections[name] = body
            else:
                s = SectionItems()
                for m, u, v, d in body:
                    s.append(HeaderItem(m, u, mk_value(v), d))
                las.sections[name] = s
        if spec.get("index_unit") is not None:
            las.index_unit = spec["index_unit"]
    else:
        raise ValueError(src)
    maxrows = spec.get("maxrows")
    if maxrows is not None:
        for c in las.curves:
            c.data = c.data[:maxrows]
    return las


# ------------------------------------------------------------------------------------------
# encoding the state of a LASFile object for the model
def chk_text(s):
    if not isinstance(s, str):
        raise Unsupported("non-str text %r" % (s,))
    if any(ch in SEPS for ch in s):
        raise Unsupported("separator code point in text")
    return s


def enc_float(x):
    x = float(x)
    if x != x:
        return "Q"
    if x == math.inf:
        return "P"
    if x == -math.inf:
        return "M"
    return "F" + x.hex()


def enc_value(v):
    if v is None:
        return "N"
    if isinstance(v, str):
        return "S" + chk_text(str(v))
    if isinstance(v, (bool, np.bool_)):
        raise Unsupported("bool header value")
    if isinstance(v, np.integer):
        return "J%d" % int(v)
    if isinstance(v, int):
        return "I%d" % v
    if isinstance(v, (float, np.floating)):
        return enc_float(v)
    raise Unsupported("header value of type %s" % type(v).__name__)


def enc_sample(x):
    if isinstance(x, str):
        return "S" + chk_text(str(x))
    if isinstance(x, (bool, np.bool_, int, np.integer)):
        raise Unsupported("integer/bool sample")
    if isinstance(x, (float, np.floating)):
        return enc_float(x)
    raise Unsupported("sample of type %s" % type(x).__name__)


def samples_of(curve):
    d = curve.data
    if not isinstance(d, np.ndarray) or d.ndim != 1:
        raise Unsupported("curve data is not a 1-D array")
    if d.dtype.kind not in "fUO":
        raise Unsupported("curve dtype %s" % d.dtype)
    return list(d)


def enc_item(it, with_data):
    parts = [chk_text(it.mnemonic), chk_text(it.original_mnemonic), chk_text(it.unit), enc_value(it.value),
             chk_text(it.descr), pl(VS, [enc_sample(x) for x in samples_of(it)]) if with_data else ""]
    return SS.join(parts)


def enc_items(sect, with_data=False):
    return pl(IS, [enc_item(it, with_data) for it in sect])


STD = ("Version", "Well", "Curves", "Parameter", "Other")


def floats_in(las):
    out = []
    for sec in ("Version", "Well", "Curves", "Parameter"):
        for it in las.sections[sec]:
            if isinstance(it.value, (float, np.floating)) and not isinstance(it.value, (bool, np.bool_)):
                out.append(float(it.value))
    for c in las.curves:
        for x in c.data:
            if isinstance(x, (float, np.floating)):
                out.append(float(x))
    return out


def ints_in(las):
    out = []
    for sec in ("Version", "Well", "Curves", "Parameter"):
        for it in las.sections[sec]:
            if isinstance(it.value, (int, np.integer)) and not isinstance(it.value, (bool, np.bool_)):
                out.append(int(it.value))
    return out


def xl_stored(x):
    """the number openpyxl keeps for x: it writes '%.16g' % x (openpyxl.compat.strings.safe_string)"""
    return float("%.16g" % x) + 0.0        # "-0" is read back as the integer 0: the sign of zero is not kept


def xl_number(x):
    try:
        return xl_stored(x).hex()
    except OverflowError:
        return "overflow"


def float_table(las):
    """oracle table: hex id -> str() text, double kept by openpyxl ; '#<int>' -> '', double kept by openpyxl"""
    rows = []
    seen = set()
    for x in floats_in(las):
        if x != x or x in (math.inf, -math.inf):
            continue
        h = x.hex()
        if h in seen:
            continue
        seen.add(h)
        rows.append(SS.join([h, repr(x), xl_number(x)]))
    for z in ints_in(las):
        k = "#%d" % z
        if k in seen:
            continue
        seen.add(k)
        rows.append(SS.join([k, "", xl_number(z)]))
    return pl(IS, rows)


def upper_table(strings):
    seen = []
    for s in strings:
        if s not in seen:
            seen.append(s)
    return pl(IS, [SS.join([s, s.upper()]) for s in seen])


def all_spellings():
    from lasio import defaults
    out = []
    for k, ps in defaults.DEPTH_UNITS.items():
        out.append(k)
        out += list(ps)
    return out


def enc_las(las, view=None):
    """fields 2..11 of a las-based case (the oracle tables only for the views that consult them)"""
    for name in ("Version", "Well", "Curves", "Parameter"):
        if not hasattr(las.sections.get(name), "dictview"):
            raise Unsupported("standard section %s is not a SectionItems" % name)
    if list(las.sections.keys())[:5] != list(STD):
        raise Unsupported("sections dict order %r" % list(las.sections.keys()))
    if not isinstance(las.sections["Other"], str):
        raise Unsupported("Other is not text")
    extra = []
    for name, body in list(las.sections.items())[5:]:
        if isinstance(body, str):
            extra.append(US.join([chk_text(name), "T", chk_text(body)]))
        elif hasattr(body, "dictview"):
            extra.append(US.join([chk_text(name), "I", enc_items(body)]))
        else:
            raise Unsupported("section %s of type %s" % (name, type(body).__name__))
    iu = las.index_unit
    ups = ["STRT", "STOP", "STEP", "M", "F", ".1IN"] + all_spellings()
    ups += [it.mnemonic for it in las.well] + [it.unit for it in las.well]
    ups += [c.mnemonic for c in las.curves] + [c.original_mnemonic for c in las.curves] + [c.unit for c in las.curves]
    ups += [c.useful_mnemonic for c in las.curves] + ["UNKNOWN"]
    if isinstance(iu, str):
        ups.append(iu)
    return [("T" if las.well.mnemonic_transforms else "F") + ("T" if las.curves.mnemonic_transforms else "F"),
            enc_items(las.version), enc_items(las.well), enc_items(las.curves, True), enc_items(las.params),
            chk_text(las.other), pl(RS, extra), "N" if iu is None else "S" + chk_text(iu),
            float_table(las) if view in (None, "csv", "xlsx") else "",
            upper_table([chk_text(u) for u in ups]) if view in (None, "unit", "rt") else ""]


# ------------------------------------------------------------------------------------------
# canonical observations
def exc_name(e):
    return "EXC:" + type(e).__name__


def atom_json(x):
    if x is None:
        return "N"
    if isinstance(x, bool):
        return "B" + str(x)
    if isinstance(x, int):
        return "I%d" % x
    if isinstance(x, float):
        return "F" + x.hex()
    if isinstance(x, str):
        return "S" + x
    return "?" + type(x).__name__


def canon_json(doc):
    if not isinstance(doc, dict) or list(doc.keys()) != ["metadata", "data"]:
        return "BADSHAPE"
    meta, data = doc["metadata"], doc["data"]
    if not isinstance(meta, dict) or not isinstance(data, dict):
        return "BADSHAPE"
    out = []
    for name, sect in meta.items():
        if isinstance(sect, str):
            out.append(RS + name + US + "T" + sect)
        elif isinstance(sect, dict):
            out.append(RS + name + US + "D" + pl(IS, [k + SS + atom_json(v) for k, v in sect.items()]))
        else:
            return "BADSHAPE"
    out.append(FS)
    for name, col in data.items():
        if not isinstance(col, list):
            return "BADSHAPE"
        out.append(RS + name + US + pl(VS, [atom_json(v) for v in col]))
    return "".join(out)


def obs_json(las):
    try:
        text = las.json
        text2 = las.to_json()
        if text != text2:
            return "JSON-PROPERTY-DIFFERS"
        return canon_json(strict_loads(text))
    except Exception as e:
        return exc_name(e)


CSV_KW_KEYS = ("lineterminator", "delimiter")


def call_to_csv(las, opts):
    s = io.StringIO(newline="")
    kw = {k: opts[k] for k in CSV_KW_KEYS if k in opts}
    las.to_csv(s, mnemonics=opts.get("mnemonics", True), units=opts.get("units", True),
               units_loc=opts.get("units_loc", "line"), **kw)
    rkw = {"delimiter": opts["delimiter"]} if "delimiter" in opts else {}
    return [list(r) for r in csv.reader(io.StringIO(s.getvalue(), newline=""), **rkw)]


def obs_csv(las, opts):
    try:
        rows = call_to_csv(las, opts)
    except Exception as e:
        return exc_name(e)
    return "".join(RS + pl(US, r) for r in rows)


def atom_cell(v):
    if isinstance(v, bool):
        return "B" + str(v)
    if isinstance(v, (int, float)):
        try:
            return "F" + (float(v) + 0.0).hex()
        except OverflowError:
            return "I%d" % v
    if isinstance(v, str):
        return "S" + v
    return "?" + type(v).__name__


def load_xlsx(las):
    import openpyxl
    d = tempfile.mkdtemp(prefix="c18_", dir=lib.OUT)
    try:
        path = os.path.join(d, "w.xlsx")
        las.to_excel(path)
        wb = openpyxl.load_workbook(path)
        sheets = {}
        for name in wb.sheetnames:
            sheets[name] = [[c.value for c in row] for row in wb[name].iter_rows()]
        names = list(wb.sheetnames)
        wb.close()
        return names, sheets
    finally:
        shutil.rmtree(d, ignore_errors=True)


def canon_sheet(grid):
    out = []
    for r, row in enumerate(grid):
        for c, v in enumerate(row):
            if v is None or (isinstance(v, str) and v == ""):
                continue
            out.append(RS + "%d" % r + US + "%d" % c + US + atom_cell(v))
    return "".join(out)


def obs_xlsx(las):
    try:
        names, sheets = load_xlsx(las)
    except Exception as e:
        return exc_name(e), None
    if names != ["Header", "Curves"]:
        return "BADSHEETS:" + ",".join(names), (names, sheets)
    return canon_sheet(sheets["Header"]) + FS + canon_sheet(sheets["Curves"]), (names, sheets)


def atom_sample(x):
    if isinstance(x, str):
        return "S" + str(x)
    if isinstance(x, (float, np.floating)):
        return enc_float(x)
    if isinstance(x, (int, np.integer)) and not isinstance(x, (bool, np.bool_)):
        return "Z%d" % int(x)
    return "?" + type(x).__name__


def canon_df(df):
    name = df.index.name
    out = ["N" if name is None else "S" + str(name), FS, pl(VS, [atom_sample(x) for x in df.index.tolist()]), FS]
    for j, col in enumerate(df.columns):
        out.append(RS + str(col) + US + pl(VS, [atom_sample(x) for x in df.iloc[:, j].tolist()]))
    return "".join(out)


def obs_df(las):
    try:
        return canon_df(las.df())
    except Exception as e:
        return exc_name(e)


def canon_curves(las):
    return "".join(RS + c.mnemonic + US + c.original_mnemonic + US + pl(VS, [atom_sample(x) for x in c.data.tolist()])
                   for c in las.curves)


def obs_rt(las):
    """mutates las"""
    try:
        las.set_data_from_df(las.df())
        return canon_curves(las)
    except Exception as e:
        return exc_name(e)


# ------------------------------------------------------------------------------------------
# direct oracles (written from the property statement, not from the model)
def same_float(a, b):
    a, b = float(a), float(b)
    if a != a or b != b:
        return a != a and b != b
    return a.hex() == b.hex()


def uniq(names):
    return {n for n in names if names.count(n) == 1}


def oracle_json(las):
    try:
        text = las.json
    except Exception as e:
        return "las.json raised %r" % (e,)
    try:
        doc = strict_loads(text)
    except Exception as e:
        return "las.json is not strict JSON: %s (text %s)" % (e, text[:200])
    try:
        meta, data = doc["metadata"], doc["data"]
        for sec in ("Version", "Well", "Curves", "Parameter"):
            sect = las.sections[sec]
            keys = [it.mnemonic for it in sect]
            for it in sect:
                if it.mnemonic not in uniq(keys):
                    continue
                got = meta[sec][it.mnemonic]
                v = it.value
                if v is None:
                    ok = got is None
                elif isinstance(v, str):
                    ok = isinstance(got, str) and got == v
                elif isinstance(v, (bool, np.bool_)):
                    continue
                elif isinstance(v, (int, np.integer)):
                    ok = isinstance(got, int) and not isinstance(got, bool) and got == int(v)
                elif isinstance(v, (float, np.floating)):
                    if float(v) != float(v) or float(v) in (math.inf, -math.inf):
                        ok = got is None      # NaN as null; JSON has no infinity either
                    else:
                        ok = isinstance(got, float) and same_float(got, v)
                else:
                    continue
                if not ok:
                    return "header item %s.%s = %r (%s) appears in JSON as %r" % (sec, it.mnemonic, v, type(v).__name__, got)
        if meta["Other"] != las.sections["Other"]:
            return "Other text differs"
        keys = [c.mnemonic for c in las.curves]
        for c in las.curves:
            if c.mnemonic not in uniq(keys):
                continue
            col = data[c.mnemonic]
            xs = list(c.data)
            if len(col) != len(xs):
                return "curve %s has %d samples, JSON %d" % (c.mnemonic, len(xs), len(col))
            for i, (x, g) in enumerate(zip(xs, col)):
                if isinstance(x, str):
                    ok = isinstance(g, str) and g == str(x)
                elif float(x) != float(x) or float(x) in (math.inf, -math.inf):
                    ok = g is None
                else:
                    ok = isinstance(g, float) and same_float(g, x)
                if not ok:
                    return "sample %s[%d] = %r appears in JSON as %r" % (c.mnemonic, i, x, g)
        if set(data.keys()) != set(keys):
            return "JSON data keys %r, curves %r" % (list(data.keys()), keys)
    except Exception as e:
        return "JSON document lacks an expected member: %r" % (e,)
    return None


# the item-level .json properties (HeaderItem.json, CurveItem.json, SectionItems.json): the statement's "to_json()/json
# always produce text a strict JSON parser accepts ... NaN as null" read for every object that has a .json.  Switched
# on after lasio commit 766a330 (item .json routed through _json_value); before it a NaN value / sample was emitted as
# the bare token NaN and a numpy integer value raised TypeError.
ITEM_JSON = True


def json_value_ok(v, got):
    """does the JSON member `got` carry the header value / sample v (numbers as numbers, text as text, a non-finite
    float as null)?  None = the statement does not speak about this type"""
    if v is None:
        return got is None
    if isinstance(v, str):
        return isinstance(got, str) and got == str(v)
    if isinstance(v, (bool, np.bool_)):
        return None
    if isinstance(v, (int, np.integer)):
        return isinstance(got, int) and not isinstance(got, bool) and got == int(v)
    if isinstance(v, (float, np.floating)):
        if float(v) != float(v) or float(v) in (math.inf, -math.inf):
            return got is None
        return isinstance(got, float) and same_float(got, v)
    return None


def oracle_item_json(it, where):
    """one item's .json: strict JSON, an object with _type / mnemonic (the original) / unit / value / descr and, for a
    curve, data -> None or the text of the first failure"""
    from lasio import CurveItem
    try:
        text = it.json
    except Exception as e:
        return "%s.json raised %r" % (where, e)
    if not isinstance(text, str):
        return "%s.json is a %s, not text" % (where, type(text).__name__)
    try:
        doc = strict_loads(text)
    except Exception as e:
        return "%s.json is not strict JSON: %s (text %s)" % (where, e, text[:200])
    if not isinstance(doc, dict):
        return "%s.json is not a JSON object: %s" % (where, text[:120])
    want = {"_type": type(it).__name__, "mnemonic": it.original_mnemonic, "unit": it.unit, "descr": it.descr}
    for k, w in want.items():
        if k not in doc or doc[k] != w or type(doc[k]) is not type(w):
            return "%s.json: member %r is %r, the item has %r" % (where, k, doc.get(k), w)
    if "value" not in doc:
        return "%s.json lacks the member 'value'" % where
    if json_value_ok(it.value, doc["value"]) is False:
        return "%s.json: value %r (%s) appears as %r" % (where, it.value, type(it.value).__name__, doc["value"])
    if isinstance(it, CurveItem):
        col = doc.get("data")
        xs = list(np.asarray(it.data))
        if np.asarray(it.data).ndim == 1:
            if not isinstance(col, list) or len(col) != len(xs):
                return "%s.json: data has %s members for %d samples" % (where, len(col) if isinstance(col, list) else col, len(xs))
            for i, (x, g) in enumerate(zip(xs, col)):
                if json_value_ok(x, g) is False:
                    return "%s.json: sample [%d] = %r appears as %r" % (where, i, x, g)
    elif "data" in doc:
        return "%s.json: a HeaderItem carries a data member" % where
    return None


def oracle_items_json(las):
    """every item of every SectionItems of the LASFile, and each section's own .json (a JSON list whose members are
    the items' .json texts) -> None or the first failure"""
    for name, sect in las.sections.items():
        if not hasattr(sect, "dictview"):
            continue
        items = list(list.__iter__(sect))
        for j, it in enumerate(items):
            bad = oracle_item_json(it, "%s[%d] (%s)" % (name, j, it.mnemonic))
            if bad:
                return bad
        try:
            text = sect.json
        except Exception as e:
            return "section %s .json raised %r" % (name, e)
        try:
            doc = strict_loads(text)
        except Exception as e:
            return "section %s .json is not strict JSON: %s (text %s)" % (name, e, text[:200])
        if not isinstance(doc, list) or len(doc) != len(items):
            return "section %s .json is not a JSON list with one member per item: %s" % (name, text[:120])
        for j, (member, it) in enumerate(zip(doc, items)):
            # lasio nests the item texts as JSON strings; an object per item would carry the same content
            try:
                inner = strict_loads(member) if isinstance(member, str) else member
            except Exception as e:
                return "section %s .json: member %d is not strict JSON: %s (text %s)" % (name, j, e, str(member)[:200])
            if inner != strict_loads(it.json):
                return "section %s .json: member %d differs from that item's .json" % (name, j)
    return None


def expected_csv_header(las, opts):
    mn, un, loc = opts.get("mnemonics", True), opts.get("units", True), opts.get("units_loc", "line")
    names = [c.original_mnemonic for c in las.curves] if mn is True else ([] if mn is False else list(mn))
    units = [c.unit for c in las.curves] if un is True else ([] if un is False else list(un))
    rows = []
    if names:
        if units and loc in ("[]", "()"):
            if len(units) != len(names):
                return None           # not a meaningful request
            rows.append(["%s %s%s%s" % (m, loc[0], u, loc[1]) for m, u in zip(names, units)])
        else:
            rows.append(names)
    if units and loc == "line":
        rows.append(units)
    return rows


def oracle_csv(las, opts):
    try:
        rows = call_to_csv(las, opts)
    except Exception as e:
        return "to_csv raised %r" % (e,)
    hdr = expected_csv_header(las, opts)
    cols = [list(c.data) for c in las.curves]
    n = len(cols[0]) if cols else 0
    if hdr is not None:
        if rows[:len(hdr)] != hdr:
            return "header rows %r, requested %r" % (rows[:len(hdr)], hdr)
        body = rows[len(hdr):]
    else:
        body = rows[len(rows) - n:] if n else []
    if len(body) != n:
        return "%d records for %d depth steps" % (len(body), n)
    for i, rec in enumerate(body):
        if len(rec) != len(cols):
            return "record %d has %d fields for %d curves" % (i, len(rec), len(cols))
        for j, f in enumerate(rec):
            x = cols[j][i]
            if isinstance(x, str):
                ok = f == str(x)
            else:
                try:
                    ok = same_float(float(f), x)
                except ValueError:
                    ok = False
            if not ok:
                return "record %d field %d is %r, curve value %r" % (i, j, f, x)
    return None


def has_inf(las):
    for x in floats_in(las):
        if x in (math.inf, -math.inf):
            return True
    return False


def cell_matches(cell, v, inf_as_empty=False):
    """does the loaded cell hold the value v (NaN / None / '' <-> empty)"""
    if v is None:
        return cell is None
    if isinstance(v, str):
        return (cell is None) if v == "" else (isinstance(cell, str) and cell == str(v))
    if isinstance(v, (float, np.floating)) and float(v) != float(v):
        return cell is None
    if isinstance(v, (float, np.floating)) and float(v) in (math.inf, -math.inf):
        return inf_as_empty and cell is None
    if isinstance(v, (bool, np.bool_)):
        return True
    if isinstance(v, (int, float, np.integer, np.floating)):
        # openpyxl keeps 16 significant digits of a number
        return isinstance(cell, (int, float)) and not isinstance(cell, bool) and cell == xl_stored(v)
    return True


def oracle_xlsx(las, loaded=None, inf_as_empty=False):
    if loaded is None:
        try:
            loaded = load_xlsx(las)
        except Exception as e:
            return "to_excel/load_workbook raised %r" % (e,)
    names, sheets = loaded
    if names != ["Header", "Curves"]:
        return "sheets %r" % (names,)

    def cell(grid, r, c):
        return grid[r][c] if r < len(grid) and c < len(grid[r]) else None

    def used(grid):
        return {(r, c) for r, row in enumerate(grid) for c, v in enumerate(row) if v is not None and v != ""}
    H, C = sheets["Header"], sheets["Curves"]
    want = [("Section", "Mnemonic", "Unit", "Value", "Description")]
    for title, sec in (("~Version", "Version"), ("~Well", "Well"), ("~Parameter", "Parameter"), ("~Curves", "Curves")):
        for it in las.sections[sec]:
            want.append((title, it.mnemonic, it.unit, it.value, it.descr))
    for r, rowvals in enumerate(want):
        for c, v in enumerate(rowvals):
            if not cell_matches(cell(H, r, c), v, inf_as_empty):
                return "Header sheet row %d column %d holds %r, item field is %r" % (r + 1, c + 1, cell(H, r, c), v)
    extra = [rc for rc in used(H) if rc[0] >= len(want) or rc[1] >= 5]
    if extra:
        return "Header sheet has extra cells %r" % (sorted(extra)[:3],)
    nrows = 0
    for i, cv in enumerate(las.curves):
        if not cell_matches(cell(C, 0, i), cv.mnemonic):
            return "Curves sheet column %d is titled %r, curve is %r" % (i + 1, cell(C, 0, i), cv.mnemonic)
        xs = list(cv.data)
        nrows = max(nrows, len(xs))
        for j, x in enumerate(xs):
            if not cell_matches(cell(C, j + 1, i), x, inf_as_empty):
                return "Curves sheet row %d column %d holds %r, sample is %r" % (j + 2, i + 1, cell(C, j + 1, i), x)
    extra = [rc for rc in used(C) if rc[0] > nrows or rc[1] >= len(las.curves)]
    if extra:
        return "Curves sheet has extra cells %r" % (sorted(extra)[:3],)
    return None


def same_sample(a, b):
    if isinstance(a, str) or isinstance(b, str):
        return isinstance(a, str) and isinstance(b, str) and str(a) == str(b)
    try:
        return same_float(a, b)
    except Exception:
        return False


def same_column(got, want):
    got, want = list(got), list(want)
    return len(got) == len(want) and all(same_sample(g, w) for g, w in zip(got, want))


def oracle_df(las):
    try:
        df = las.df()
    except Exception as e:
        return "df() raised %r" % (e,)
    cs = list(las.curves)
    if not cs:
        if df.shape[1] != 0 or len(df.index) != 0:
            return "df of a file without curves has shape %r" % (df.shape,)
        return None
    if df.index.name != cs[0].mnemonic:
        return "index is named %r, first curve is %r" % (df.index.name, cs[0].mnemonic)
    if [str(c) for c in df.columns] != [c.mnemonic for c in cs[1:]]:
        return "columns %r, curves %r" % (list(df.columns), [c.mnemonic for c in cs[1:]])
    if not same_column(df.index.tolist(), cs[0].data.tolist()):
        return "index values %r, first curve %r" % (df.index.tolist(), cs[0].data.tolist())
    for j, c in enumerate(cs[1:]):
        if not same_column(df.iloc[:, j].tolist(), c.data.tolist()):
            return "column %s values %r, curve %r" % (c.mnemonic, df.iloc[:, j].tolist(), c.data.tolist())
    return None


def oracle_rt(las):
    """mutates las"""
    names = [c.mnemonic for c in las.curves]
    vals = [c.data.tolist() for c in las.curves]
    try:
        las.set_data_from_df(las.df())
    except Exception as e:
        return "set_data_from_df(df()) raised %r" % (e,)
    if len(set(names)) != len(names):
        return None          # session names not distinct: C13's finding, outside this property's domain
    if [c.mnemonic for c in las.curves] != names:
        return "curve names %r became %r" % (names, [c.mnemonic for c in las.curves])
    for c, v in zip(las.curves, vals):
        if not same_column(c.data.tolist(), v):
            return "curve %s values %r became %r" % (c.mnemonic, v, c.data.tolist())
    return None


# the recognised spellings as the documentation / property lists them
SPEC_UNITS = {
    "FT": ("FT", "F", "FEET", "FOOT"),
    "M": ("M", "METER", "METERS", "METRE", "METRES", "метер", "м"),
    ".1IN": (".1IN", "0.1IN", ".1INCH", "0.1INCH"),
}
FACTOR_TO_FT = {"FT": Fraction(1), "M": 1 / Fraction(381, 1250), ".1IN": Fraction(1, 120)}


def spec_classes(u):
    return {k for k, ps in SPEC_UNITS.items() if any(u.upper() == p.upper() for p in ps)}


def checked_units(las):
    out = []
    for mn in ("STRT", "STOP", "STEP"):
        if mn in las.well:
            out.append(las.well[mn].unit)
    if len(las.curves) > 0:
        out.append(las.curves[0].unit)
    return out


def oracle_unit(las, forced):
    if forced:
        return None            # forcing the unit is a configuration the property does not speak about
    classes = set()
    for u in checked_units(las):
        classes |= spec_classes(u)
    want = list(classes)[0] if len(classes) == 1 else None
    if las.index_unit != want:
        return "units %r: index_unit is %r, the statement says %r" % (checked_units(las), las.index_unit, want)
    return None


def ulp_ok(a, exact, n=4):
    a = float(a)
    if a != a or a in (math.inf, -math.inf):
        return False
    return abs(Fraction(a) - exact) <= n * Fraction(math.ulp(a))


def oracle_depth(las):
    import lasio
    iu = las.index_unit
    idx = [float(x) for x in las.index]
    res = {}
    for nm in ("depth_m", "depth_ft"):
        try:
            res[nm] = [float(x) for x in getattr(las, nm)]
        except lasio.exceptions.LASUnknownUnitError:
            res[nm] = None
        except Exception as e:
            return "%s raised %r" % (nm, e)
    cls = None
    if isinstance(iu, str) and iu:
        for k in SPEC_UNITS:
            if iu.upper() == k:
                cls = k
        if cls is None and iu.upper() in ("M", "FT", "F"):
            cls = "M" if iu.upper() == "M" else "FT"
    if iu is None:
        if res["depth_m"] is not None or res["depth_ft"] is not None:
            return "index unit undefined but depth_m/depth_ft returned values"
        return None
    if cls is None:
        return None
    if res["depth_m"] is None or res["depth_ft"] is None:
        return "index unit %r recognised but depth_m/depth_ft raised LASUnknownUnitError" % (iu,)
    k = Fraction(381, 1250)
    for i, x in enumerate(idx):
        ft = Fraction(x) * FACTOR_TO_FT[cls]
        m = ft * k
        if not ulp_ok(res["depth_ft"][i], ft):
            return "depth_ft[%d] = %r for index %r %s (exact %s)" % (i, res["depth_ft"][i], x, cls, float(ft))
        if not ulp_ok(res["depth_m"][i], m):
            return "depth_m[%d] = %r for index %r %s (exact %s)" % (i, res["depth_m"][i], x, cls, float(m))
        if not ulp_ok(res["depth_m"][i], Fraction(res["depth_ft"][i] * 0.3048)) and \
           not ulp_ok(res["depth_m"][i], Fraction(res["depth_ft"][i]) * k):
            return "depth_m[%d] = %r but depth_ft[%d] * 0.3048 = %r" % (i, res["depth_m"][i], i, res["depth_ft"][i] * 0.3048)
    return None


# ------------------------------------------------------------------------------------------
# one case: observation for the model comparison + oracle verdict
def opts_field(view, opts):
    if view == "csv":
        def sel(v):
            if v is True:
                return "T"
            if v is False:
                return "F"
            return "L" + pl(IS, [chk_text(x) for x in v])
        loc = opts.get("units_loc", "line")
        return US.join([sel(opts.get("mnemonics", True)), sel(opts.get("units", True)), "None" if loc is None else chk_text(loc)])
    if view == "unit":
        f = opts.get("index_unit")
        return "N" if f is None else "S" + chk_text(f)
    return ""


def q_str(x):
    fr = Fraction(float(x))
    return "%d%s%d" % (fr.numerator, SS, fr.denominator)


def depth_obs_field(las, nm):
    try:
        vals = [float(x) for x in getattr(las, nm)]
    except Exception as e:
        return exc_name(e)
    out = []
    for v in vals:
        if v != v or v in (math.inf, -math.inf):
            return "NONFINITE"
        fr, u = Fraction(v), Fraction(math.ulp(v))
        out.append(SS.join(["%d" % fr.numerator, "%d" % fr.denominator, "%d" % u.numerator, "%d" % u.denominator]))
    return pl(VS, out)


def evaluate(payload):
    """-> (coq_input, expected, oracle_text_or_None).  Raises Unsupported for out-of-domain states."""
    view, opts = payload["view"], payload.get("opts", {})
    if view == "unit":
        spec = dict(payload["las"])
        kw = dict(spec.get("kw", {}))
        if opts.get("index_unit") is not None:
            kw["index_unit"] = opts["index_unit"]
        spec["kw"] = kw
        las = build(spec)
        enc = enc_las(las, view)
        obs = "N" if las.index_unit is None else "S" + str(las.index_unit)
        return FS.join([view, opts_field(view, opts)] + enc), obs, oracle_unit(las, opts.get("index_unit"))
    if view == "depth":
        las = build(payload["las"])
        if len(las.curves) == 0:
            raise Unsupported("depth of a file without curves")
        iu = las.index_unit
        idx = list(las.index)
        if any(not isinstance(x, (float, np.floating)) or x != x or x in (math.inf, -math.inf) for x in idx):
            raise Unsupported("non-finite / non-numeric index")
        ups = ["M", "F", ".1IN"] + ([iu] if isinstance(iu, str) else [])
        inp = FS.join([view, "N" if iu is None else "S" + chk_text(iu), upper_table(ups),
                       pl(VS, [q_str(x) for x in idx]), depth_obs_field(las, "depth_m"), depth_obs_field(las, "depth_ft")])
        exp = "OK"
        try:
            las.depth_m
        except Exception as e:
            exp = exc_name(e)
        return inp, exp, oracle_depth(las)
    las = build(payload["las"])
    enc = enc_las(las, view)
    inp = FS.join([view, opts_field(view, opts)] + enc)
    if view == "json":
        bad = oracle_json(las)
        if bad is None and ITEM_JSON:
            bad = oracle_items_json(las)
        return inp, obs_json(las), bad
    if view == "csv":
        return inp, obs_csv(las, opts), oracle_csv(las, opts)
    if view == "xlsx":
        obs, loaded = obs_xlsx(las)
        bad = oracle_xlsx(las, loaded) if loaded is not None else "to_excel raised %s" % obs
        return inp, obs, bad
    if view in ("df", "rt"):
        names = [c.mnemonic for c in las.curves]
        if len(set(names)) != len(names):
            # e.g. curves A, A:1, A -> session names A:1, A:1, A:2: C13's recorded finding (F10); a DataFrame
            # with repeated column labels is outside this property's domain
            raise Unsupported("session mnemonics of the curves are not pairwise distinct")
    if view == "df":
        return inp, obs_df(las), oracle_df(las)
    if view == "rt":
        las2 = build(payload["las"])
        return inp, obs_rt(las), oracle_rt(las2)
    raise ValueError(view)


# ------------------------------------------------------------------------------------------
# known findings: signature predicates over replays
def finding_of(payload):
    """excel-inf: the ONLY thing wrong is that infinite values read back as empty cells."""
    try:
        if payload.get("view") != "xlsx":
            return None
        las = build(payload["las"])
        if not has_inf(las):
            return None
        loaded = load_xlsx(las)
        if oracle_xlsx(las, loaded) is None:
            return None
        if oracle_xlsx(las, loaded, inf_as_empty=True) is None:
            return "excel-inf"
    except Exception:
        return None
    return None


# ------------------------------------------------------------------------------------------
# the model side: decoding of a case and rendering of the model's result
RUN_DEF = r"""
From Coq Require Import QArith Qabs.
Require Import Tables Export.
Open Scope list_scope.
Open Scope N_scope.

Definition US : N := 1.
Definition IS : N := 2.
Definition SS : N := 3.
Definition VS : N := 4.
Definition plist (sep : N) (s : list N) : list (list N) :=
  match split_char sep s with [] => [] | _ :: t => t end.
Definition fld (n : nat) (l : list (list N)) : list N := nth n l [].

Fixpoint digits_N (s : list N) (acc : N) : N :=
  match s with [] => acc | c :: t => digits_N t (10 * acc + (c - 48)) end.
Definition parse_Z (s : list N) : Z :=
  match s with
  | 45 :: t => Z.opp (Z.of_N (digits_N t 0))
  | _ => Z.of_N (digits_N s 0)
  end.
Definition parse_pos (s : list N) : positive :=
  match digits_N s 0 with N0 => 1%positive | Npos p => p end.

Definition dec_fval (s : list N) : fval :=
  match s with
  | 70 :: t => Fin t
  | 80 :: _ => FPInf
  | 77 :: _ => FNInf
  | _ => FNaN
  end.
Definition dec_value (s : list N) : hvalue :=
  match s with
  | 83 :: t => HStr t
  | 73 :: t => HInt (parse_Z t)
  | 74 :: t => HNpInt (parse_Z t)
  | 78 :: _ => HNone
  | _ => HFloat (dec_fval s)
  end.
Definition dec_sample (s : list N) : sample :=
  match s with
  | 83 :: t => SText t
  | _ => SNum (dec_fval s)
  end.
Definition dec_item (s : list N) : item :=
  let p := split_char SS s in
  mkItem (fld 0 p) (fld 1 p) (fld 2 p) (dec_value (fld 3 p)) (fld 4 p) (map dec_sample (plist VS (fld 5 p))).
Definition dec_items (s : list N) : list item := map dec_item (plist IS s).
Definition dec_extra (s : list N) : list (list N * section) :=
  map (fun r => let p := split_char US r in
                (fld 0 p, match fld 1 p with
                          | 84 :: _ => SecText (fld 2 p)
                          | _ => SecItems (dec_items (fld 2 p))
                          end)) (plist RS s).
Definition dec_bool (c : N) : bool := c =? 84.
Definition dec_opt (s : list N) : option (list N) :=
  match s with 83 :: t => Some t | _ => None end.

(* f: all FS fields of the case; fields 2.. hold the LASFile *)
Definition dec_las (f : list (list N)) : las :=
  mkLas (dec_items (fld 3 f)) (dec_items (fld 4 f)) (dec_items (fld 5 f)) (dec_items (fld 6 f))
        (fld 7 f) (dec_extra (fld 8 f))
        (dec_bool (nth 0 (fld 2 f) 0)) (dec_bool (nth 1 (fld 2 f) 0)) (dec_opt (fld 9 f)).

(* oracle tables: rows of SS-separated columns, looked up by their first column *)
Definition dec_table (s : list N) : list (list (list N)) := map (split_char SS) (plist IS s).
Fixpoint lookup (t : list (list (list N))) (col : nat) (k : list N) : list N :=
  match t with
  | [] => 63 :: 63 :: k
  | e :: t' => if str_eqb (fld 0 e) k then fld col e else lookup t' col k
  end.

Definition err_name (e : err) : list N :=
  s2l "EXC:" ++
  match e with
  | ValueError => s2l "ValueError"
  | TypeError => s2l "TypeError"
  | IndexError => s2l "IndexError"
  | KeyError => s2l "KeyError"
  | LASUnknownUnitError => s2l "LASUnknownUnitError"
  | OutOfModel => s2l "OutOfModel"
  end.

(* ---- JSON ---- *)
Definition r_atom (a : jatom) : list N :=
  match a with
  | JNull => [78]
  | JInt z => 73 :: Z_to_str z
  | JNum id => 70 :: id
  | JStr s => 83 :: s
  | JTok _ => s2l "TOKEN"
  end.
Definition r_json (d : jdoc) : list N :=
  flat_map (fun ns => RS :: fst ns ++ US ::
              match snd ns with
              | JText t => 84 :: t
              | JDict kv => 68 :: flat_map (fun ka => IS :: fst ka ++ SS :: r_atom (snd ka)) kv
              end) (jmeta d)
  ++ FS :: flat_map (fun kc => RS :: fst kc ++ US :: flat_map (fun a => VS :: r_atom a) (snd kc)) (jdata d).

(* ---- CSV ---- *)
Definition dec_sel (s : list N) : sel :=
  match s with
  | 84 :: _ => SelTrue
  | 70 :: _ => SelFalse
  | _ :: t => SelList (plist IS t)
  | [] => SelFalse
  end.
Definition dec_loc (s : list N) : uloc :=
  if str_eqb s (s2l "line") then LocLine
  else if str_eqb s (s2l "[]") then LocSquare
  else if str_eqb s (s2l "()") then LocRound
  else LocOther.
Definition dec_csv_opts (s : list N) : csv_opts :=
  let p := split_char US s in mkCsvOpts (dec_sel (fld 0 p)) (dec_sel (fld 1 p)) (dec_loc (fld 2 p)).
Definition r_rows (rows : list (list (list N))) : list N :=
  flat_map (fun row => RS :: flat_map (fun x => US :: x) row) rows.

(* ---- Excel: the non-empty cells of the bounding box, row-major.  What openpyxl gives back
   for a stored value is the oracle: '' / None / non-finite numbers read back as empty, numbers
   as the double they denote. ---- *)
Definition r_cell (t : list (list (list N))) (x : xcell) : option (list N) :=
  match x with
  | XStr [] => None
  | XStr s => Some (83 :: s)
  | XInt z => Some (70 :: lookup t 2 (35 :: Z_to_str z))
  | XNum (Fin id) => Some (70 :: lookup t 2 id)
  | XNum _ => None
  | XNone => None
  end.
Definition bound (ws : list write) : nat * nat :=
  fold_left (fun b w => match w with (r, c, _) => (Nat.max (fst b) (S r), Nat.max (snd b) (S c)) end) ws (0%nat, 0%nat).
Definition r_sheet (t : list (list (list N))) (ws : list write) : list N :=
  let b := bound ws in
  flat_map (fun r => flat_map (fun c =>
     match xl_get ws r c with
     | Some x => match r_cell t x with
                 | Some a => RS :: nat_to_str r ++ US :: nat_to_str c ++ US :: a
                 | None => []
                 end
     | None => []
     end) (seq 0 (snd b))) (seq 0 (fst b)).

(* ---- DataFrame ---- *)
Definition r_sample (x : sample) : list N :=
  match x with
  | SNum (Fin id) => 70 :: id
  | SNum FNaN => [81]
  | SNum FPInf => [80]
  | SNum FNInf => [77]
  | SText s => 83 :: s
  end.
Definition r_samples (l : list sample) : list N := flat_map (fun x => VS :: r_sample x) l.
Definition r_df (d : dframe) : list N :=
  match df_index_name d with None => [78] | Some s => 83 :: s end
  ++ FS :: r_samples (df_index d)
  ++ FS :: flat_map (fun kc => RS :: fst kc ++ US :: r_samples (snd kc)) (df_cols d).
Definition r_curves (cs : list item) : list N :=
  flat_map (fun c => RS :: session c ++ US :: orig c ++ US :: r_samples (data c)) cs.

(* ---- depth: |model - observed| <= 4 ulp(observed), in Q ---- *)
Definition dec_q (s : list N) : Q :=
  let p := split_char SS s in Qmake (parse_Z (fld 0 p)) (parse_pos (fld 1 p)).
Definition dec_obs (s : list N) : Q * Q :=
  let p := split_char SS s in
  (Qmake (parse_Z (fld 0 p)) (parse_pos (fld 1 p)), Qmake (parse_Z (fld 2 p)) (parse_pos (fld 3 p))).
Fixpoint close_all (m : list Q) (o : list (Q * Q)) : bool :=
  match m, o with
  | [], [] => true
  | x :: m', (v, u) :: o' => Qle_bool (Qabs (Qminus x v)) (Qmult (4 # 1) u) && close_all m' o'
  | _, _ => false
  end.
Definition depth_check (r : result (list Q)) (obs : list N) : list N :=
  match r with
  | Err e => err_name e
  | Ok m => if close_all m (map dec_obs (plist VS obs)) then s2l "OK" else s2l "BAD"
  end.
Definition merge (a b : list N) : list N :=
  if str_eqb a b then a else a ++ 47 :: b.

Definition run (i : list N) : list N :=
  let f := fields i in
  let view := fld 0 f in
  if str_eqb view (s2l "depth") then
    let up := lookup (dec_table (fld 2 f)) 1 in
    let iu := dec_opt (fld 1 f) in
    let xs := map dec_q (plist VS (fld 3 f)) in
    merge (depth_check (depth_m up iu xs) (fld 4 f)) (depth_check (depth_ft up iu xs) (fld 5 f))
  else
  let l := dec_las f in
  let ft := dec_table (fld 10 f) in
  let up := lookup (dec_table (fld 11 f)) 1 in
  if str_eqb view (s2l "json") then r_json (to_json l)
  else if str_eqb view (s2l "csv") then
    match to_csv (lookup ft 1) l (dec_csv_opts (fld 1 f)) with
    | Ok rows => r_rows rows
    | Err e => err_name e
    end
  else if str_eqb view (s2l "xlsx") then
    r_sheet ft (excel_header_writes l) ++ FS :: r_sheet ft (excel_curve_writes l)
  else if str_eqb view (s2l "df") then
    match df_view l with Ok d => r_df d | Err e => err_name e end
  else if str_eqb view (s2l "rt") then
    match df_view l with
    | Ok d => match set_data_from_df up d l with
              | Ok l' => r_curves (curves l')
              | Err e => err_name e
              end
    | Err e => err_name e
    end
  else if str_eqb view (s2l "unit") then
    match read_index_unit up (dec_opt (fld 1 f)) l with
    | None => [78]
    | Some k => 83 :: k
    end
  else s2l "UNKNOWN-VIEW".
"""

# ------------------------------------------------------------------------------------------
# generators
FLOATS = [0.0, -0.0, 1.0, 1.5, -999.25, 2.0, 1670.0, 1e22, 1e-7, 123456.789, 2.5e-300, 1.7976931348623157e308,
          5e-324, 0.1, 1.0 / 3.0, -42.0, 9007199254740992.0, 1e16, 0.30000000000000004, 100.0, 1669.875]
INTS = [0, 1, -1, 5, 7, 42, 1670, -999, 2 ** 31, 2 ** 53 - 1, -(2 ** 53) + 1, 20010123]
BIGINTS = [2 ** 53 + 1, 2 ** 63 - 1, -(2 ** 63), 2 ** 70, 10 ** 30]
TEXTS = ["", "NO", "abc", "W1", "12-34-12-34W5M", "a,b", 'say "hi"', " lead", "trail ", "üé", "метр",
         "tab\there", "x;y", "0012", "1e5", "nan", "inf", "NaN", "23:15", "a'b", "#c", "[x]", "(y)", "=", "~A", "line\nbreak"]
CURVE_TEXTS = ["abc", "def", "", "a,b", 'q"r', "2001-01-23", "12:30", "x y", "ü", "N/A", "-", "hi;there", "--", "~"]
MNEMS = ["DEPT", "DEPTH", "A", "B", "GR", "RHOB", "a", "gr", "", " ", "X1", "ГК", "A:1", "TIME", "N P"]
UNITS = ["", "M", "m", "FT", "ft", "F", "g/cc", "ohm.m", "м", "US/F", ".1IN", "API", "v/v", "s", "mm"]
DESCRS = ["", "depth", "1 descr", "a: b", "опис"]


def rnd_float(rng):
    r = rng.random()
    if r < 0.5:
        return rng.choice(FLOATS)
    if r < 0.8:
        return round(rng.uniform(-3000, 3000), rng.choice([0, 1, 2, 3, 4]))
    return rng.uniform(-1, 1) * 10.0 ** rng.randint(-12, 15)


def rnd_value(rng, big=False, allow_inf=True):
    r = rng.random()
    if r < 0.28:
        return ["s", rng.choice(TEXTS)]
    if r < 0.40:
        return ["i", str(rng.choice(INTS + (BIGINTS if big else [])))]
    if r < 0.52:
        z = rng.choice(INTS + ([2 ** 63 - 1, -(2 ** 63)] if big else []))
        return ["ni", str(z)]
    if r < 0.66:
        return ["f", rnd_float(rng).hex()]
    if r < 0.80:
        return ["nf", rnd_float(rng).hex()]
    if r < 0.86:
        return ["nan"]
    if r < 0.90:
        return ["nnan"]
    if r < 0.94:
        return ["none"]
    if allow_inf:
        return [rng.choice(["inf", "-inf"])]
    return ["nan"]


def rnd_items(rng, n, big, allow_inf, texts_ok=True):
    out = []
    for _ in range(n):
        v = rnd_value(rng, big, allow_inf)
        out.append([rng.choice(MNEMS), rng.choice(UNITS), v, rng.choice(DESCRS)])
    return out


def rnd_samples(rng, n, kind, allow_inf):
    out = []
    for _ in range(n):
        if kind == "t":
            out.append(["t", rng.choice(CURVE_TEXTS)])
        else:
            r = rng.random()
            if r < 0.15:
                out.append(["nan"])
            elif r < 0.19 and allow_inf:
                out.append([rng.choice(["inf", "-inf"])])
            else:
                out.append(["f", rnd_float(rng).hex()])
    return out


OBJECT_NAN = True


def text_curve_ok(samples):
    """a text curve of the domain has at least one sample float() rejects"""
    for s in samples:
        if s[0] == "t":
            try:
                float(s[1])
            except ValueError:
                return True
    return False


def gen_build_spec(rng, allow_inf=True, big=True, xlsx=False):
    bare = rng.random() < 0.6
    nrows = rng.choice([0, 1, 1, 2, 3, 3, 4, 5, 6])
    ncurves = rng.choice([0, 1, 2, 2, 3, 3, 4, 5])
    if ncurves == 0:
        nrows = 0
    items = {"Version": rnd_items(rng, rng.randint(0, 2), big, allow_inf),
             "Well": rnd_items(rng, rng.randint(0, 4), big, allow_inf),
             "Parameter": rnd_items(rng, rng.randint(0, 4), big, allow_inf)}
    curves = []
    for j in range(ncurves):
        kind = "t" if (rng.random() < 0.2 and nrows > 0) else "f"
        smp = rnd_samples(rng, nrows, kind, allow_inf)
        if kind == "t" and not text_curve_ok(smp):
            smp[0] = ["t", "abc"]
        if kind == "t" and OBJECT_NAN and nrows > 1 and rng.random() < 0.35:
            smp[rng.randrange(1, nrows)] = ["onan"]
        if j == 0 and rng.random() < 0.8:
            smp = [["f", (100.0 + 0.5 * i).hex()] for i in range(nrows)]
        curves.append([rng.choice(MNEMS) if j else rng.choice(["DEPT", "DEPTH", "TIME", "DEPT", ""]),
                       rng.choice(UNITS), rng.choice(["", "60 520 32 00", "x"]), rng.choice(DESCRS), smp])
    spec = {"src": "build", "bare": bare, "items": items, "curves": curves,
            "other": rng.choice(["", "", "some note", "line one\nline two", "ü note"])}
    if rng.random() < 0.12:
        spec["extra"] = [[rng.choice(["Zcustom", "Tops"]),
                          rng.choice(["free text", rnd_items(rng, 2, False, allow_inf)])]]
    if xlsx:
        def clean(s):
            return s.replace("\n", " ")
        for sec in items:
            for it in items[sec]:
                if it[2][0] == "s" and (it[2][1].startswith("=")):
                    it[2][1] = "eq"
    return spec


HEADER_VALUES_TEXT = ["5", "2.5", "abc", "", "-999.25", "1670", "007", "1e3", "12-34", "W 1", "0.30480", "NO", "15_9"]


def gen_text_spec(rng, units=None):
    """a well-formed LAS 2.0 text.  units: (STRT, STOP, STEP, curve0) or None for 'M'."""
    u = units or ("M", "M", "M", "M")
    nrows = rng.choice([1, 2, 3, 4, 5, 6])
    ncur = rng.choice([1, 2, 3, 4])
    names = ["DEPT"] + [rng.choice(["A", "B", "GR", "A", "RHOB", "gr"]) for _ in range(ncur - 1)]
    textcol = [False] + [rng.random() < 0.2 for _ in range(ncur - 1)]
    lines = ["~Version", "VERS. 2.0 : v", "WRAP. NO : w", "~Well"]
    lines += ["STRT.%s 1.0 : s" % u[0], "STOP.%s %d.0 : s" % (u[1], nrows), "STEP.%s 1.0 : s" % u[2], "NULL. -999.25 : n"]
    for k in range(rng.randint(0, 3)):
        lines.append("%s.%s %s : d%d" % (rng.choice(["WELL", "FLD", "X", "X", "Y"]), rng.choice(["", "m", "ft"]),
                                         rng.choice(HEADER_VALUES_TEXT), k))
    lines.append("~Curves")
    lines.append("%s.%s : depth" % (names[0], u[3]))
    for n in names[1:]:
        lines.append("%s.%s : c" % (n, rng.choice(["", "gAPI", "m", "g/cc"])))
    lines.append("~Params")
    for k in range(rng.randint(0, 3)):
        lines.append("%s.%s %s : p%d" % (rng.choice(["P", "Q", "P", "BHT"]), rng.choice(["", "degC"]),
                                         rng.choice(HEADER_VALUES_TEXT), k))
    if rng.random() < 0.3:
        lines += ["~Other", "a note"]
    lines.append("~ASCII")
    for i in range(nrows):
        row = ["%.1f" % (i + 1)]
        for j in range(1, ncur):
            if textcol[j]:
                row.append(rng.choice(["abc", "def", "x-y", "N/A"]))
            else:
                row.append(rng.choice(["-999.25", "%.3f" % rng.uniform(0, 200), "%d" % rng.randint(0, 99), "1e3"]))
        lines.append(" ".join(row))
    kw = {}
    if rng.random() < 0.25:
        kw["mnemonic_case"] = rng.choice(["preserve", "upper", "lower"])
    return {"src": "text", "text": "\n".join(lines) + "\n", "kw": kw}


EXAMPLE_FILES = ["tests/examples/sample.las", "tests/examples/2.0/sample_2.0.las", "tests/examples/sample_null.las",
                 "tests/examples/mnemonic_duplicate.las", "tests/examples/autodepthindex_M.las",
                 "tests/examples/autodepthindex_FEET.las", "tests/examples/autodepthindex_point_one_inch.las",
                 "tests/examples/sample_str_in_data.las", "tests/examples/1.2/sample.las",
                 "tests/examples/sample_cyrillic_depth_unit.las", "tests/examples/autodepthindex_M_FT.las",
                 "tests/examples/non-standard-header-section.las", "tests/examples/mnemonic_missing_multiple.las"]


def gen_csv_opts(rng, ncurves, exhaustive_index=None):
    mn_choices = [True, False, "L"]
    loc_choices = ["line", "[]", "()", None]
    if exhaustive_index is not None:
        k = exhaustive_index
        mn, un, loc = mn_choices[k % 3], mn_choices[(k // 3) % 3], loc_choices[(k // 9) % 4]
    else:
        mn, un, loc = rng.choice(mn_choices), rng.choice(mn_choices), rng.choice(loc_choices + ["<>"])

    def lst(prefix):
        n = ncurves if rng.random() < 0.8 else max(0, ncurves + rng.choice([-1, 1]))
        if rng.random() < 0.05:
            n = 0
        return ["%s%d" % (prefix, i) if rng.random() < 0.8 else rng.choice(TEXTS[:12]) for i in range(n)]
    opts = {"mnemonics": lst("m") if mn == "L" else mn, "units": lst("u") if un == "L" else un, "units_loc": loc}
    r = rng.random()
    if r < 0.2:
        opts["lineterminator"] = rng.choice(["\r\n", "\n", "\r"])
    if 0.15 < r < 0.35:
        opts["delimiter"] = rng.choice([";", "\t", "|", " "])
    return opts


def case_variants(rng, s):
    out = {s, s.upper(), s.lower(), s.capitalize(), s.swapcase()}
    for _ in range(2):
        out.add("".join(ch.upper() if rng.random() < 0.5 else ch.lower() for ch in s))
    return sorted(out)


OUTSIDE_UNITS = ["", "KM", "km", "CM", "IN", "INCH", "FTS", "MET", "MTR", "S", "MS", "1IN", "FEETS", "M.", "FT.", "yd",
                 "км", "фут", "m/s", "F T", "METERSS", "0.1", ".1", "Mm", "ff"]


def gen_unit_cases(rng, thorough):
    cases = []
    spell = []
    for k, ps in SPEC_UNITS.items():
        for p in ps:
            for v in case_variants(rng, p):
                spell.append((k, v))
    # every spelling, every case variant, everywhere
    for k, v in spell:
        cases.append(((v, v, v, v), None))
    # one place recognised, the rest outside the table
    for k, v in spell[:: (1 if thorough else 3)]:
        o = rng.choice(OUTSIDE_UNITS)
        where = rng.randrange(4)
        u = [o, o, o, o]
        u[where] = v
        cases.append((tuple(u), None))
    # outside the table
    for o in OUTSIDE_UNITS:
        cases.append(((o, o, o, o), None))
    # conflicts and agreements between places
    n = 400 if thorough else 70
    for _ in range(n):
        u = []
        for _p in range(4):
            r = rng.random()
            if r < 0.6:
                u.append(rng.choice(spell)[1])
            else:
                u.append(rng.choice(OUTSIDE_UNITS))
        cases.append((tuple(u), None))
    # forced
    for f in ["m", "ft", "M", "FT", "f", ".1in", "km", ""]:
        cases.append((("M", "M", "M", rng.choice(["M", "FT"])), f))
    return cases


def unit_text(rng, u, with_items=(True, True, True)):
    """small well-formed file; units that the header grammar cannot carry verbatim are still fine:
    the oracle and the model look at the units lasio holds after reading"""
    lines = ["~Version", "VERS. 2.0 : v", "WRAP. NO : w", "~Well"]
    for nm, un, w in zip(("STRT", "STOP", "STEP"), u[:3], with_items):
        if w:
            lines.append("%s.%s 1.0 : s" % (nm, un))
    lines += ["NULL. -999.25 : n", "~Curves", "DEPT.%s : depth" % u[3], "A. : a", "~ASCII"]
    vals = [rng.choice([0.0, 1.0, 0.5, 1524.0, 100.25, -30.48, 12000.0, 3.0e-3, 9999.99, 1e6]) for _ in range(rng.randint(1, 5))]
    for x in vals:
        lines.append("%r 1.0" % x)
    return "\n".join(lines) + "\n"


def gen_cases(ctx, rng=None, scale=1.0):
    """yields payloads"""
    rng = rng or ctx.rng
    th = ctx.thorough
    n_build = int((1500 if th else 260) * scale)
    n_text = int((600 if th else 110) * scale)
    n_xlsx = int((400 if th else 60) * scale)
    # corpus: the defects of F13 and the fixed ones first
    corpus = [
        {"src": "build", "items": {}, "curves": []},                                       # empty file, default NaN STRT
        {"src": "build", "bare": True, "items": {"Well": [["X", "", ["ni", "7"], ""], ["Y", "", ["i", "7"], ""]]},
         "curves": [["DEPT", "m", "", "", [["f", (1.0).hex()], ["f", (2.0).hex()]]], ["T", "", "", "", [["t", "abc"], ["t", ""]]],
                    ["B", "", "", "", [["nan"], ["f", (1e22).hex()]]]]},
        {"src": "build", "bare": True, "items": {"Well": [["X", "", ["inf"], ""]]},
         "curves": [["DEPT", "m", "", "", [["f", (1.0).hex()]]], ["A", "", "", "", [["f", (2.5).hex()]]], ["A", "", "", "", [["nan"]]]]},
    ]
    for spec in corpus:
        for view in ("json", "csv", "df", "rt", "xlsx"):
            yield {"las": spec, "view": view, "opts": {}}
    yield {"las": {"src": "build", "bare": True, "items": {},
                   "curves": [["DEPT", "m", "", "", [["f", (1.0).hex()], ["f", (2.0).hex()]]],
                              ["A", "", "", "", [["inf"], ["f", (2.5).hex()]]]]}, "view": "xlsx", "opts": {}}
    combo = 0
    for k in range(n_build):
        spec = gen_build_spec(rng)
        yield {"las": spec, "view": "json", "opts": {}}
        nc = len(spec["curves"])
        for _ in range(3):
            yield {"las": spec, "view": "csv", "opts": gen_csv_opts(rng, nc, combo)}
            combo += 1
        yield {"las": spec, "view": "csv", "opts": gen_csv_opts(rng, nc)}
        yield {"las": spec, "view": "df", "opts": {}}
        yield {"las": spec, "view": "rt", "opts": {}}
    for k in range(n_text):
        spec = gen_text_spec(rng)
        yield {"las": spec, "view": "json", "opts": {}}
        yield {"las": spec, "view": "csv", "opts": gen_csv_opts(rng, 3, combo)}
        combo += 1
        yield {"las": spec, "view": "df", "opts": {}}
        yield {"las": spec, "view": "rt", "opts": {}}
        if k % 6 == 0:
            yield {"las": spec, "view": "xlsx", "opts": {}}
    for path in EXAMPLE_FILES:
        spec = {"src": "file", "path": path, "maxrows": 5}
        for view in ("json", "csv", "df", "rt", "xlsx", "depth"):
            yield {"las": spec, "view": view, "opts": gen_csv_opts(rng, 3, combo) if view == "csv" else {}}
            combo += 1
    for k in range(n_xlsx):
        yield {"las": gen_build_spec(rng, allow_inf=False, big=False, xlsx=True), "view": "xlsx", "opts": {}}
    # units and depth
    for u, forced in gen_unit_cases(rng, th):
        present = (True, True, True) if rng.random() < 0.8 else tuple(rng.random() < 0.5 for _ in range(3))
        spec = {"src": "text", "text": unit_text(rng, u, present), "kw": {}}
        if rng.random() < 0.15:
            spec["kw"]["mnemonic_case"] = rng.choice(["upper", "lower", "preserve"])
        yield {"las": spec, "view": "unit", "opts": {"index_unit": forced} if forced is not None else {}}
        d = dict(spec)
        if forced:
            d["kw"] = dict(spec["kw"], index_unit=forced)
        yield {"las": d, "view": "depth", "opts": {}}


# ------------------------------------------------------------------------------------------
def run(ctx):
    res = lib.Result()
    cases, payloads = [], []
    hist = {}
    skipped = 0
    nontrivial = set()
    for p in gen_cases(ctx):
        try:
            inp, exp, bad = evaluate(p)
        except Unsupported:
            skipped += 1
            continue
        cases.append((inp, exp))
        payloads.append(p)
        key = p["view"] + ":" + p["las"]["src"]
        hist[key] = hist.get(key, 0) + 1
        if exp.startswith("EXC:"):
            hist["raises:" + p["view"]] = hist.get("raises:" + p["view"], 0) + 1
        if p["las"].get("curves") != [] or p["las"]["src"] != "build":
            nontrivial.add(inp)
        if bad:
            res.oracle_violations.append({"payload": p, "what": "%s view: %s" % (p["view"], bad)})
    if ctx.build.model_ok:
        mism, err = lib.run_coq_cases("c18", [], RUN_DEF, cases, shard=60)
        res.corr_error = err
        for i in mism:
            res.mismatches.append({"payload": payloads[i], "impl": cases[i][1][:300]})
    else:
        res.corr_error = "model not built"
    res.cases = len(cases)
    res.distinct_nontrivial = len(nontrivial)
    res.rule = ("one case = (LASFile, view, options); LASFiles built from scratch (0-5 curves, 0-6 rows, int / numpy int / "
                "float / numpy float / NaN / inf / None / text header values, float and text curves, NaN and inf samples, "
                "duplicate and blank mnemonics, extra sections), read from generated LAS 2.0 text and from %d example files; "
                "views json, csv (all 36 mnemonics x units x units_loc combinations cycled, custom lists, delimiters, line "
                "terminators), xlsx, df, set_data_from_df(df()), index unit (every spelling of the table in 5-7 case variants, "
                "spellings outside it, conflicting places, forced), depth_m/depth_ft; non-trivial = distinct case inputs whose "
                "LASFile has at least one curve or was read" % len(EXAMPLE_FILES))
    res.samples = [(p["view"] + " " + json.dumps(p["las"], ensure_ascii=True)[:160]) for p in payloads[:2] + payloads[40:43] + payloads[-3:]]
    hist["skipped_out_of_domain"] = skipped
    res.histogram = hist
    return res


def replay(payload):
    try:
        _inp, _exp, bad = evaluate(payload)
    except Unsupported as e:
        return False, "outside the modelled domain: %s" % e
    return (bad is not None), ("%s view: %s" % (payload["view"], bad) if bad else "ok")


def search(ctx, res):
    """after a proof/tie broke: the mismatching cases first, then a wider stream (oracles only)"""
    for m in res.mismatches:
        bad, what = replay(m["payload"])
        if bad:
            yield {"payload": m["payload"], "what": what}
    for seed in range(1, 4):
        rng = random.Random(ctx.seed + seed)
        for p in gen_cases(ctx, rng=rng, scale=2.0):
            try:
                bad, what = replay(p)
            except Exception as e:
                bad, what = True, "harness exception %r" % (e,)
            if bad:
                yield {"payload": p, "what": what}
