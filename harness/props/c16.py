"""C16 — write() is deterministic, leaves data alone, states STRT/STOP/STEP truthfully."""
import copy
import io
import math

import numpy as np

import lib
import corpus_files
import lasgen
import readmodel as rm
import writemodel as wm

PROP = "C16"
MODEL_TARGETS = ["Corr/WriteShow.vo"]
THEOREMS = ["C16_data_frame", "C16_curves_frame", "C16_params_frame", "C16_well_frame", "C16_version_frame", "C16_state_depends_on_wrap_only", "C16_vers_untouched", "C16_standardize_idem", "C16_refresh_idem", "C16_write_text_function_of_state", "C16_idempotent_partial", "C16_idempotent_nowrap", "C16_need_created", "C16_need_changed", "C16_need_stop_differs_int", "C16_need_stop_differs_float", "C16_units_aligned", "C16_truth", "C16_truth_texts", "C16_header_frame", "C16_version_in_memory",
            "C16_standardize_current"]
ASSUMPTIONS = [
    "'to format precision' = the text \"%.5f\" % x that CPython prints (oracle fmtv / fmt_diff)",
    "STRT/STOP/STEP keyword arguments are left to lasio (None), as the property says",
]

WOPTS = [dict(), dict(version=1.2), dict(version=2), dict(wrap=True), dict(wrap=False), dict(version=1.2, wrap=True, data_width=40),
         dict(fmt="%.3f"), dict(len_numeric_field=-1, spacer="\t"), dict(mnemonics_header=True), dict(fmt="%.2f", column_fmt={0: "%.4f"}),
         dict(header_width=30, data_section_header="~A")]


def index_tokens(rng, n):
    kind = rng.choice(["inc", "dec", "irregular", "const"])
    x = rng.choice([0.0, 100.0, 1670.0, -5.0, 0.125, 10000.0, 25000.5])
    step = rng.choice([0.5, 1.0, 0.1524, 0.25, 10.0])
    out = []
    for i in range(n):
        if kind == "inc":
            v = x + i * step
        elif kind == "dec":
            v = x - i * step
        elif kind == "const":
            v = x
        else:
            v = x + i * step + rng.choice([0.0, 0.013, -0.2])
        out.append(repr(round(v, 6)))
    return out


def gen_case(rng):
    s = lasgen.basic_spec(rng, nrows=rng.choice([1, 2, 3, 6]))
    nr, nc = len(s.rows), len(s.rows[0])
    idx = index_tokens(rng, nr)
    for i in range(nr):
        s.rows[i][0] = idx[i]
    # STRT/STOP/STEP in the file: consistent with the data or not
    consistent = rng.random() < 0.5
    if consistent:
        s.well[0] = ("STRT", "M", idx[0], "START")
        s.well[1] = ("STOP", "M", idx[-1], "STOP")
    else:
        s.well[0] = ("STRT", rng.choice(["M", "FT", ""]), rng.choice(["0", "12.5", idx[0]]), "START")
        s.well[1] = ("STOP", rng.choice(["M", "FT"]), rng.choice(["999", "1.5"]), "STOP")
    s.curves[0] = (s.curves[0][0], rng.choice(["M", "FT", "", "M"]), "", s.curves[0][3])
    if rng.random() < 0.4:
        s.params.append(("EMP", rng.choice(["DEGC", "M", ""]), "", "empty value"))
    if rng.random() < 0.3:
        s.well.append(("LOC", "M", "", "empty with unit"))
    s.null = "-999.25"
    for row in s.rows:
        for j in range(1, nc):
            if rng.random() < 0.15:
                row[j] = "-999.25"
    text = lasgen.render(s)[0]
    ops = [("R", {})]
    mode = rng.choice(["read", "read", "scratch", "edit_index", "edit_index_small", "edit_index_small", "edit_curve", "edit_header"])
    if mode == "scratch":
        ops.append(("EN",))
    elif mode == "edit_index":
        new = index_tokens(rng, nr)
        ops.append(("ES", 0, new))
    elif mode == "edit_index_small":
        # a small depth correction (tiny relative to the depth values): still an edit of the index
        delta = rng.choice([0.05, 0.001, 1e-4, -0.02])
        ops.append(("ES", 0, [repr(round(float(t) + delta, 6)) for t in idx]))
    elif mode == "edit_curve" and nc > 1:
        ops.append(("ES", nc - 1, [lasgen.num_token(rng, "fixed") for _ in range(nr)]))
    elif mode == "edit_header":
        ops.append(("EV", "W", "STOP", rng.choice(["77", "text"])))
    wkw = copy.deepcopy(rng.choice(WOPTS))
    nw = rng.choice([1, 2, 3])
    for _ in range(nw):
        ops.append(("W", wkw))
    return text, ops, mode, consistent


def snap(las):
    d = {}
    for k, sec in las.sections.items():
        if isinstance(sec, str):
            d[k] = sec
        else:
            d[k] = [(it.original_mnemonic, it.mnemonic, it.unit, rm.hval(it.value), it.descr) for it in sec]
    d["__data"] = [[rm.show_cell(x) for x in c.data] for c in las.curves]
    d["__index_unit"] = las.index_unit
    return d


def apply_ops_until_write(text, ops):
    import lasio
    las = None
    for op in ops:
        if op[0] == "R":
            las = lasio.read(text, **op[1])
        elif op[0] == "EN":
            las.index_initial = None
        elif op[0] == "ES":
            las.curves[op[1]].data = np.array([float(t) for t in op[2]])
        elif op[0] == "EV":
            try:
                las.sections[wm.SECT[op[1]]][op[2]].value = op[3]
            except KeyError:
                pass
        elif op[0] == "W":
            break
    return las


def oracle(text, ops):
    import lasio
    try:
        las = apply_ops_until_write(text, ops)
    except Exception as e:
        return None
    wkw = [o for o in ops if o[0] == "W"][0][1]
    nw = len([o for o in ops if o[0] == "W"])
    before = snap(las)
    index_initial = None if las.index_initial is None else las.index_initial.copy()
    index = las.index.copy() if len(las.curves) else None
    outs = []
    snaps = []
    try:
        for _ in range(max(nw, 2)):
            buf = io.StringIO()
            las.write(buf, **wkw)
            outs.append(buf.getvalue())
            snaps.append(snap(las))
    except Exception as e:
        return None          # not a writable file (e.g. missing STOP): outside the property
    after = snaps[0]
    # 1. frame
    if before["__data"] != after["__data"]:
        return "write() changed curve data"
    for k in before:
        if k.startswith("__"):
            continue
        b, a = before[k], after.get(k)
        if isinstance(b, str):
            if a != b:
                return "write() changed text section %r" % k
            continue
        if k == "Version" and "wrap" in wkw:
            b2 = [x for x in b if x[1].upper() != "WRAP"]
            a2 = [x for x in a if x[1].upper() != "WRAP"]
            if b2 != a2:
                return "write(wrap=...) changed ~Version beyond the WRAP item: %r -> %r" % (b, a)
            continue
        if len(a) != len(b):
            return "write() changed the number of items of %r" % k
        for x, y in zip(b, a):
            if (x[0], x[1], x[4]) != (y[0], y[1], y[4]):
                return "write() changed mnemonic/description of %r item %r -> %r" % (k, x, y)
            special = k == "Well" and x[1].upper() in ("STRT", "STOP", "STEP")
            if x[2] != y[2] and not (special or (k == "Curves" and x is b[0])):
                return "write() changed the unit of %r item %r -> %r" % (k, x, y)
            if x[3] != y[3] and not special:
                allowed = k in ("Well", "Parameter") and ((x[3] in ("S:", "O:None") and y[3] in ("I:0", "S:")))
                if not allowed:
                    return "write() changed the value of %r item %r -> %r" % (k, x, y)
    vb = [x for x in before["Version"] if x[1].upper() == "VERS"]
    va = [x for x in after["Version"] if x[1].upper() == "VERS"]
    if vb != va:
        return "in-memory VERS changed by version=: %r -> %r" % (vb, va)
    # 2. determinism / idempotence
    if outs[0] != outs[1]:
        k = next((i for i in range(min(len(outs[0]), len(outs[1]))) if outs[0][i] != outs[1][i]), 0)
        return "two consecutive write() outputs differ near %r vs %r" % (outs[0][max(0, k - 40):k + 40], outs[1][max(0, k - 40):k + 40])
    if snaps[0] != snaps[1]:
        return "second write() changed the object again"
    # 3. truthfulness
    if index is not None and len(index) and all(isinstance(x, float) and not math.isnan(x) for x in index):
        stop_before = [x for x in before["Well"] if x[1].upper() == "STOP"][0][3]
        created_or_changed = index_initial is None or not np.array_equal(index_initial, index)
        try:
            if stop_before.startswith("I:"):
                stop_val = float(int(stop_before[2:]))
            elif stop_before.startswith("F:"):
                stop_val = float.fromhex(stop_before[2:])
            else:
                stop_val = None
        except ValueError:
            stop_val = None
        disagrees = stop_val is None or stop_val != index[-1]
        if created_or_changed or disagrees:
            l2 = lasio.read(outs[0])
            w = {it.mnemonic: it for it in l2.well}
            ifmt = (wkw.get("column_fmt") or {}).get(0, wkw.get("fmt", "%.5f"))     # the index column's format
            exp_strt = float(ifmt % index[0])
            exp_stop = float(ifmt % index[-1])
            if float(w["STRT"].value) != exp_strt or float(w["STOP"].value) != exp_stop:
                return "written STRT/STOP %r/%r, index runs %r..%r" % (w["STRT"].value, w["STOP"].value, index[0], index[-1])
            if len(index) > 1 and (ifmt % index[0]) != (ifmt % index[-1]):
                exp_step = float(ifmt % (index[1] - index[0]))
                if float(w["STEP"].value) != exp_step:
                    return "written STEP %r, first increment %r" % (w["STEP"].value, exp_step)
            cu = l2.curves[0].unit
            if not (w["STRT"].unit == w["STOP"].unit == w["STEP"].unit == cu):
                return "units not aligned: %r %r %r curve %r" % (w["STRT"].unit, w["STOP"].unit, w["STEP"].unit, cu)
    return None


def run(ctx):
    res = lib.Result()
    rng = ctx.rng
    n = 2500 if ctx.thorough else 170
    cases, meta, kinds = [], [], set()
    hist = {}
    for _ in range(n):
        text, ops, mode, consistent = gen_case(rng)
        bad = oracle(text, ops)
        if bad:
            res.oracle_violations.append({"payload": {"text": text, "ops": ops}, "what": bad})
        c, r = wm.coq_case(text, ops)
        cases.append(c)
        meta.append((text, ops))
        wkw = [o for o in ops if o[0] == "W"][0][1]
        kinds.add((mode, consistent, tuple(sorted((a, str(b)) for a, b in wkw.items())), len([o for o in ops if o[0] == "W"])))
        hist[mode] = hist.get(mode, 0) + 1
    for name, text in corpus_files.corpus():
        ops = [("R", {}), ("W", {}), ("W", {})]
        bad = oracle(text, ops)
        if bad:
            res.oracle_violations.append({"payload": {"text": text, "ops": ops}, "what": "%s: %s" % (name, bad)})
        c, r = wm.coq_case(text, ops)
        cases.append(c)
        meta.append((text, ops))
        hist["corpus"] = hist.get("corpus", 0) + 1
    if ctx.build.model_ok:
        mism, err = lib.run_coq_cases("c16", [], wm.RUN_PIPE, cases, shard=10)
        res.corr_error = err
        for i in mism:
            res.mismatches.append({"text": meta[i][0], "ops": repr(meta[i][1])})
    else:
        res.corr_error = "model not built"
    res.cases = len(cases)
    res.distinct_nontrivial = len(kinds)
    res.rule = ("LASFiles read from generated text (STRT/STOP consistent with the data or not; increasing, decreasing, constant, "
                "irregular, single-sample indexes; empty values with units), then left alone / index_initial cleared (built from "
                "scratch) / index replaced / another curve replaced / header edited, written 1-3 times with one of 11 option sets; "
                "plus the example corpus written twice; observed: every text and the full snapshot after the last write; "
                "non-trivial = distinct (edit mode, consistent?, option set, write count)")
    res.samples = [repr(meta[0][1]), repr(meta[1][1])]
    res.histogram = hist
    return res


def fix_ops(ops):
    out = []
    for o in ops:
        o = list(o)
        if o[0] in ("R", "W"):
            kw = dict(o[1])
            if "column_fmt" in kw and kw["column_fmt"]:
                kw["column_fmt"] = {int(a): b for a, b in kw["column_fmt"].items()}
            o[1] = kw
        out.append(tuple(o))
    return out


def finding_of(payload):
    """known finding duplicate-wrap: ~Version holds two or more WRAP items and wrap= is given"""
    import re
    text = payload.get("text", "")
    m = re.search(r"~V[^\n]*\n(.*?)(?=\n\s*~|\Z)", text, re.S | re.I)
    body = m.group(1) if m else ""
    nwrap = sum(1 for ln in body.split("\n") if re.match(r"\s*WRAP\s*\.", ln, re.I))
    gives_wrap = any(o[0] == "W" and o[1].get("wrap") is not None for o in payload.get("ops", []))
    return "duplicate-wrap" if nwrap >= 2 and gives_wrap else None


def replay(payload):
    bad = oracle(payload["text"], fix_ops(payload["ops"]))
    return bad is not None, bad or "ok"


def search(ctx, res):
    import random
    rng = random.Random(ctx.seed + 81)
    for _ in range(6000):
        text, ops, mode, consistent = gen_case(rng)
        bad = oracle(text, ops)
        if bad:
            yield {"payload": {"text": text, "ops": ops}, "what": bad}
            return
