"""C16 — write() is deterministic, leaves data alone, states STRT/STOP/STEP truthfully."""
import copy
import io
import math
import re

import numpy as np

import lib
import corpus_files
import lasgen
import readmodel as rm
import writemodel as wm

PROP = "C16"
MODEL_TARGETS = ["Corr/WriteShow.vo"]
THEOREMS = ["C16_data_frame", "C16_curves_frame", "C16_params_frame", "C16_well_frame", "C16_version_frame", "C16_state_depends_on_wrap_only", "C16_vers_untouched", "C16_standardize_idem", "C16_refresh_idem", "C16_write_text_function_of_state", "C16_idempotent_partial", "C16_idempotent_nowrap", "C16_need_created", "C16_need_changed", "C16_need_stop_differs_int", "C16_need_stop_differs_float", "C16_units_aligned", "C16_truth", "C16_truth_texts", "C16_header_frame", "C16_version_in_memory",
            "C16_standardize_current", "C16_truth_step_nan", "C16_no_curve_raises"]
ASSUMPTIONS = [
    "'to format precision' = the text \"%.5f\" % x that CPython prints (oracle fmtv / fmt_diff)",
    "STRT/STOP/STEP keyword arguments are left to lasio (None), as the property says",
    "numeric/NaN index: the index curve holds numbers (NaN included, class NAN_INDEX); a TEXT index column is outside the writer model "
    "(lasio raises TypeError or skips the refresh) and is not generated; text curves sit in non-index positions only",
    "a write() that raises (missing STRT/STOP/STEP item, all curves deleted) is outside the statement: the direct oracle says nothing, "
    "but model and implementation must agree that it raises (correspondence)",
    "a NaN index cell is not combined with an integer conversion for the index column ('%d' % nan raises ValueError in CPython, so that "
    "write() raises) nor with width/sign flags (the model prints fmt % nan as the literal nan)",
]

WOPTS = [dict(), dict(version=1.2), dict(version=2), dict(wrap=True), dict(wrap=False), dict(version=1.2, wrap=True, data_width=40),
         dict(fmt="%.3f"), dict(len_numeric_field=-1, spacer="\t"), dict(mnemonics_header=True), dict(fmt="%.2f", column_fmt={0: "%.4f"}),
         dict(header_width=30, data_section_header="~A"),
         dict(fmt="%g"), dict(fmt="%d"), dict(fmt="%.3e"), dict(fmt="%10.4g", len_numeric_field=-1), dict(fmt="%.5f", column_fmt={0: "%d"}),
         dict(column_fmt={1: "%.1f", 2: "%d"}), dict(fmt="%.3f", column_fmt={0: "%.5f", 1: "%.2e", 3: "%g"}),
         dict(lhs_spacer=""), dict(lhs_spacer="  ", spacer="  ", wrap=True), dict(lhs_spacer="", len_numeric_field=-1, mnemonics_header=True)]

# read options of the read that builds the object
ROPTS = [dict(), dict(), dict(), dict(), dict(mnemonic_case="preserve"), dict(mnemonic_case="lower"), dict(engine="normal"),
         dict(ignore_header_errors=True), dict(null_policy="none"), dict(mnemonic_case="preserve", engine="normal", ignore_header_errors=True)]

# classes that needed the writer model of A5 (Model/Writer.v STEP "nan", WErr on no curves; Corr/WriteShow.v ops ED / EB): on since the
# model agent's go
NAN_INDEX = True             # NaN inside the index ([1.0, nan, 3.0], NaN first / last), by edit, in the text, or scratch-built
ZERO_CURVES = True           # every curve deleted after a read (lasio raises IndexError); needs the pipeline op ED
SCRATCH_BUILT_MODEL = True   # lasio.LASFile() + append_curve goes through the model as well (needs the pipeline op EB); the
                             # implementation-side oracle runs on these objects in any case


def index_tokens(rng, n):
    kind = rng.choice(["inc", "dec", "irregular", "const"])
    x = rng.choice([0.0, 100.0, 1670.0, -5.0, 0.125, 10000.0, 25000.5])
    step = rng.choice([0.5, 1.0, 0.1524, 0.25, 10.0])
    out = []
    for i in range(n):
        if kind == "inc":
            v = x + i * step
        elif kind == "dec":
            v = x - i * step
        elif kind == "const":
            v = x
        else:
            v = x + i * step + rng.choice([0.0, 0.013, -0.2])
        out.append(repr(round(v, 6)))
    return out


TEXT_TOKENS = ["abc", "N/A", "sand", "x1", "shale-2", "A"]


def nan_tokens(rng, toks):
    """put NaN into an index: in the middle, first, second or last position"""
    toks = list(toks)
    n = len(toks)
    for k in {rng.choice([0, 1, n - 1, n // 2]) % n for _ in range(rng.choice([1, 1, 2]))}:
        toks[k] = "nan"
    return toks


def gen_scratch(rng):
    """lasio.LASFile() + append_curve (default header: STRT/STOP/STEP are NaN, index_initial is None), written 1-3 times"""
    nr = rng.choice([1, 2, 3, 6])
    nc = rng.randint(0 if ZERO_CURVES else 1, 4)
    idx = index_tokens(rng, nr)
    if NAN_INDEX and rng.random() < 0.3:
        idx = nan_tokens(rng, idx)
    curves = []
    for j in range(nc):
        if j == 0:
            toks = idx
        elif rng.random() < 0.15:
            toks = [rng.choice(TEXT_TOKENS) for _ in range(nr)]
        else:
            toks = [lasgen.num_token(rng, "fixed") if rng.random() > 0.15 else "nan" for _ in range(nr)]
        name = rng.choice(["DEPT", "DEPTH", "TIME"]) if j == 0 else rng.choice(["GR", "RHOB", "GR", "", "X1"])
        curves.append((name, rng.choice(["m", "FT", ""]), toks))
    ops = [("EB", curves)]
    wkw = pick_wopts(rng, "nan" in idx)
    for _ in range(rng.choice([1, 2, 3])):
        ops.append(("W", wkw))
    return "", ops, "scratch_built", False, {"scratch_built"} | ({"nan_index"} if "nan" in idx and nc else set())


def index_fmt(wkw):
    return (wkw.get("column_fmt") or {}).get(0, wkw.get("fmt", "%.5f"))


def pick_wopts(rng, nan_index):
    """one of the option sets; with NaN in the index only those whose index format prints nan as the literal (ASSUMPTIONS)"""
    while True:
        wkw = copy.deepcopy(rng.choice(WOPTS))
        if not nan_index or re.fullmatch(r"%(\.\d+)?[feg]", index_fmt(wkw)):
            return wkw


def gen_case(rng):
    if rng.random() < 0.08:
        return gen_scratch(rng)
    feats = set()
    s = lasgen.basic_spec(rng, nrows=rng.choice([1, 2, 3, 6]))
    nr, nc = len(s.rows), len(s.rows[0])
    idx = index_tokens(rng, nr)
    if NAN_INDEX and rng.random() < 0.06:
        idx = nan_tokens(rng, idx)
        feats.add("nan_index_in_text")
    for i in range(nr):
        s.rows[i][0] = idx[i]
    # STRT/STOP/STEP in the file: consistent with the data or not
    consistent = rng.random() < 0.5
    if consistent:
        s.well[0] = ("STRT", "M", idx[0], "START")
        s.well[1] = ("STOP", "M", idx[-1], "STOP")
    else:
        s.well[0] = ("STRT", rng.choice(["M", "FT", "", "m", "Ft"]), rng.choice(["0", "12.5", idx[0]]), "START")
        s.well[1] = ("STOP", rng.choice(["M", "FT", "m", "fT"]), rng.choice(["999", "1.5"]), "STOP")
    # units that differ from the ~Well ones only in letter case as well (round 7, C16_5: an alignment that compares
    # case-insensitively leaves STRT.M next to DEPT.m)
    s.curves[0] = (s.curves[0][0], rng.choice(["M", "FT", "", "M", "m", "ft"]), "", s.curves[0][3])
    if rng.random() < 0.4:
        s.params.append(("EMP", rng.choice(["DEGC", "M", ""]), "", "empty value"))
    if rng.random() < 0.3:
        s.well.append(("LOC", "M", "", "empty with unit"))
    s.null = "-999.25"
    for row in s.rows:
        for j in range(1, nc):
            if rng.random() < 0.15:
                row[j] = "-999.25"
    # a text curve in a non-index position
    if nc > 1 and rng.random() < 0.12:
        j = rng.randrange(1, nc)
        for row in s.rows:
            row[j] = rng.choice(TEXT_TOKENS)
        feats.add("text_curve")
    # duplicated / blank curve mnemonics
    if nc > 1 and rng.random() < 0.15:
        m, u, v, d = s.curves[-1]
        s.curves[-1] = (rng.choice(["", s.curves[0][0], s.curves[max(0, nc - 2)][0]]), u, v, d)
        feats.add("dup_or_blank_mnemonic")
    if rng.random() < 0.12:
        s.custom.append((rng.choice(["~Tops", "~Inclinometry_Info"]), [("T1", "M", "5", "top"), ("T2", "M", "7.5", "base"), ("T1", "", "x", "again")]))
        s.order.append(("X", 0))
        feats.add("custom_section")
    # missing STRT / STOP / STEP (write raises) or NULL (NaN samples are then written as ... whatever lasio and the model agree on)
    r = rng.random()
    if r < 0.06:
        drop = rng.choice(["STRT", "STOP", "STEP"])
        s.well = [w for w in s.well if w[0] != drop]
        feats.add("missing_" + drop)
    elif r < 0.14:
        s.null = None
        feats.add("missing_NULL")
    text = lasgen.render(s)[0]
    rkw = dict(rng.choice(ROPTS))
    if rkw:
        feats.add("read_options")
    ops = [("R", rkw)]
    mode = rng.choice(["read", "read", "scratch", "edit_index", "edit_index_small", "edit_index_small", "edit_curve", "edit_header",
                       "edit_header", "edit_text_curve", "edit_nan_index", "delete_all"])
    if mode == "scratch":
        ops.append(("EN",))
    elif mode == "edit_index":
        new = index_tokens(rng, nr)
        ops.append(("ES", 0, new))
    elif mode == "edit_index_small":
        # a small depth correction (tiny relative to the depth values): still an edit of the index
        delta = rng.choice([0.05, 0.001, 1e-4, -0.02])
        ops.append(("ES", 0, [t if t == "nan" else repr(round(float(t) + delta, 6)) for t in idx]))
    elif mode == "edit_curve" and nc > 1:
        ops.append(("ES", nc - 1, [lasgen.num_token(rng, "fixed") for _ in range(nr)]))
    elif mode == "edit_text_curve" and nc > 1:
        ops.append(("ES", rng.randrange(1, nc), [rng.choice(TEXT_TOKENS) for _ in range(nr)]))
    elif mode == "edit_nan_index" and NAN_INDEX:
        ops.append(("ES", 0, nan_tokens(rng, index_tokens(rng, nr))))
    elif mode == "delete_all" and ZERO_CURVES:
        for _ in range(max(nc, len(s.curves))):
            ops.append(("ED", 0))
        if rng.random() < 0.3:
            ops.append(("EN",))           # without index_initial the empty LASFile is writable (STRT/STOP/STEP become 0)
            feats.add("delete_all_then_scratch")
    elif mode == "edit_header":
        ops.append(rng.choice([("EV", "W", "STOP", "77"), ("EV", "W", "STOP", "text"), ("EV", "W", "STRT", "0.5"), ("EV", "W", "STEP", "9"),
                               ("EV", "W", "STEP", "text"), ("EV", "W", "NULL", "-1"), ("EV", "W", "COMP", "x y"),
                               ("EV", "P", (s.params[0][0] if s.params else "BHT0"), "12"), ("EV", "C", s.curves[0][0], "7"),
                               ("EV", "V", "WRAP", "YES")]))
    else:
        mode = "read"
    nan_index = "nan" in idx or any(o[0] == "ES" and o[1] == 0 and "nan" in o[2] for o in ops)
    if nan_index:
        feats.add("nan_index")
    wkw = pick_wopts(rng, nan_index)
    nw = rng.choice([1, 2, 3])
    for _ in range(nw):
        ops.append(("W", wkw))
    return text, ops, mode, consistent, feats


def snap(las):
    d = {}
    for k, sec in las.sections.items():
        if isinstance(sec, str):
            d[k] = sec
        else:
            d[k] = [(it.original_mnemonic, it.mnemonic, it.unit, rm.hval(it.value), it.descr) for it in sec]
    d["__data"] = [[rm.show_cell(x) for x in c.data] for c in las.curves]
    d["__index_unit"] = las.index_unit
    return d


def apply_ops_until_write(text, ops):
    import lasio
    las = None
    for op in ops:
        if op[0] == "R":
            las = lasio.read(text, **op[1])
        elif op[0] == "EN":
            las.index_initial = None
        elif op[0] == "ED":
            del las.curves[op[1]]
        elif op[0] == "EB":
            las = wm.build_scratch(op[1])
        elif op[0] == "ES":
            vals = [wm.tocell(t) for t in op[2]]
            if all(isinstance(v, float) for v in vals):
                las.curves[op[1]].data = np.array(vals, dtype=float)
            else:
                las.curves[op[1]].data = np.array([str(v) if not isinstance(v, str) else v for v in vals])
        elif op[0] == "EV":
            try:
                las.sections[wm.SECT[op[1]]][op[2]].value = op[3]
            except KeyError:
                pass
        elif op[0] == "W":
            break
    return las


def oracle(text, ops, detail=None):
    import lasio
    try:
        las = apply_ops_until_write(text, ops)
    except Exception as e:
        if detail is not None:
            detail["rejected"] = "building the object raised %s: %s" % (type(e).__name__, str(e)[-80:])
        return None
    wkw = [o for o in ops if o[0] == "W"][0][1]
    nw = len([o for o in ops if o[0] == "W"])
    before = snap(las)
    index_initial = None if las.index_initial is None else las.index_initial.copy()
    index = las.index.copy() if len(las.curves) else None
    outs = []
    snaps = []
    try:
        for _ in range(max(nw, 2)):
            buf = io.StringIO()
            las.write(buf, **wkw)
            outs.append(buf.getvalue())
            snaps.append(snap(las))
    except Exception as e:
        if detail is not None:
            detail["rejected"] = "write raised %s: %s" % (type(e).__name__, str(e)[-80:])
        if outs:
            return "write() number %d raised %s: %s after an earlier write() of the same object succeeded" % (len(outs) + 1, type(e).__name__, str(e)[-80:])
        return None          # not a writable file (e.g. missing STOP): outside the property
    if detail is not None:
        detail["outs"], detail["snaps"], detail["before"] = outs, snaps, before
    after = snaps[0]
    # 1. frame
    if before["__data"] != after["__data"]:
        return "write() changed curve data"
    for k in before:
        if k.startswith("__"):
            continue
        b, a = before[k], after.get(k)
        if isinstance(b, str):
            if a != b:
                return "write() changed text section %r" % k
            continue
        if k == "Version" and "wrap" in wkw:
            b2 = [x for x in b if x[1].upper() != "WRAP"]
            a2 = [x for x in a if x[1].upper() != "WRAP"]
            if b2 != a2:
                return "write(wrap=...) changed ~Version beyond the WRAP item: %r -> %r" % (b, a)
            continue
        if len(a) != len(b):
            return "write() changed the number of items of %r" % k
        for x, y in zip(b, a):
            if (x[0], x[1], x[4]) != (y[0], y[1], y[4]):
                return "write() changed mnemonic/description of %r item %r -> %r" % (k, x, y)
            special = k == "Well" and x[1].upper() in ("STRT", "STOP", "STEP")
            if x[2] != y[2] and not (special or (k == "Curves" and x is b[0])):
                return "write() changed the unit of %r item %r -> %r" % (k, x, y)
            if x[3] != y[3] and not special:
                allowed = k in ("Well", "Parameter") and ((x[3] in ("S:", "O:None") and y[3] in ("I:0", "S:")))
                if not allowed:
                    return "write() changed the value of %r item %r -> %r" % (k, x, y)
    vb = [x for x in before["Version"] if x[1].upper() == "VERS"]
    va = [x for x in after["Version"] if x[1].upper() == "VERS"]
    if vb != va:
        return "in-memory VERS changed by version=: %r -> %r" % (vb, va)
    # 2. determinism / idempotence
    if outs[0] != outs[1]:
        k = next((i for i in range(min(len(outs[0]), len(outs[1]))) if outs[0][i] != outs[1][i]), 0)
        return "two consecutive write() outputs differ near %r vs %r" % (outs[0][max(0, k - 40):k + 40], outs[1][max(0, k - 40):k + 40])
    if snaps[0] != snaps[1]:
        return "second write() changed the object again"
    # 3. truthfulness
    if index is not None and len(index) and all(isinstance(x, float) for x in index) and any(math.isnan(x) for x in index):
        # NaN in the index: STRT/STOP are the printed first/last cells ("nan" for a NaN cell), STEP is "nan" when these differ and one
        # of the first two cells is NaN
        created_or_changed = index_initial is None or not np.array_equal(index_initial, index)
        if created_or_changed:
            ifmt = index_fmt(wkw)
            w = {it.mnemonic.upper(): it for it in las.well}
            s0, s1 = ifmt % index[0], ifmt % index[-1]
            same = lambda v, t: str(v).strip() == t.strip() or (not isinstance(v, str) and v == v and float(v) == float(t))
            if not same(w["STRT"].value, s0) or not same(w["STOP"].value, s1):
                return "NaN in the index: STRT/STOP are %r/%r after write(), first/last index cells print as %r/%r" % (w["STRT"].value, w["STOP"].value, s0, s1)
            if s0 != s1 and (math.isnan(index[0]) or (len(index) > 1 and math.isnan(index[1]))):
                if str(w["STEP"].value).strip() != "nan":
                    return "NaN in the index: STEP is %r after write(), the first increment is NaN" % (w["STEP"].value,)
    if index is not None and len(index) and all(isinstance(x, float) and not math.isnan(x) for x in index):
        stop_before = [x for x in before["Well"] if x[1].upper() == "STOP"][0][3]
        created_or_changed = index_initial is None or not np.array_equal(index_initial, index)
        try:
            if stop_before.startswith("I:"):
                stop_val = float(int(stop_before[2:]))
            elif stop_before.startswith("F:"):
                stop_val = float.fromhex(stop_before[2:])
            else:
                stop_val = None
        except ValueError:
            stop_val = None
        disagrees = stop_val is None or stop_val != index[-1]
        if created_or_changed or disagrees:
            l2 = lasio.read(outs[0])
            w = {it.mnemonic: it for it in l2.well}
            ifmt = index_fmt(wkw)     # the index column's format
            exp_strt = float(ifmt % index[0])
            exp_stop = float(ifmt % index[-1])
            if float(w["STRT"].value) != exp_strt or float(w["STOP"].value) != exp_stop:
                return "written STRT/STOP %r/%r, index runs %r..%r" % (w["STRT"].value, w["STOP"].value, index[0], index[-1])
            if len(index) > 1 and (ifmt % index[0]) != (ifmt % index[-1]):
                exp_step = float(ifmt % (index[1] - index[0]))
                if float(w["STEP"].value) != exp_step:
                    return "written STEP %r, first increment %r" % (w["STEP"].value, exp_step)
            cu = l2.curves[0].unit
            if not (w["STRT"].unit == w["STOP"].unit == w["STEP"].unit == cu):
                return "units not aligned: %r %r %r curve %r" % (w["STRT"].unit, w["STOP"].unit, w["STEP"].unit, cu)
    return None


def run(ctx):
    res = lib.Result()
    rng = ctx.rng
    n = 2500 if ctx.thorough else 170
    cases, meta, kinds = [], [], set()
    hist = {}
    unexpected = []
    for _ in range(n):
        text, ops, mode, consistent, feats = gen_case(rng)
        detail = {}
        bad = oracle(text, ops, detail)
        if bad:
            res.oracle_violations.append({"payload": {"text": text, "ops": ops}, "what": bad})
        wkw = [o for o in ops if o[0] == "W"][0][1]
        kinds.add((mode, consistent, tuple(sorted((a, str(b)) for a, b in wkw.items())), len([o for o in ops if o[0] == "W"]),
                   tuple(sorted(feats))))
        hist[mode] = hist.get(mode, 0) + 1
        for f in feats:
            hist["+" + f] = hist.get("+" + f, 0) + 1
        if "rejected" in detail:
            # a write that raises is outside the statement; it is expected for a missing STRT/STOP/STEP item, for a NaN sample when
            # there is no NULL item to print it with, and for a LASFile without curves - anything else would shrink the sample silently
            hist["write_raises"] = hist.get("write_raises", 0) + 1
            if not (any(f.startswith("missing_ST") for f in feats) or (mode == "delete_all" and "delete_all_then_scratch" not in feats)
                    or ("missing_NULL" in feats and ("nan_index" in feats or "NULL" in detail["rejected"]))):
                unexpected.append("%s %r: %s" % (mode, sorted(feats), detail["rejected"]))
        if mode == "scratch_built" and not SCRATCH_BUILT_MODEL:
            continue
        c, r = wm.coq_case(text, ops)
        cases.append(c)
        meta.append((text, ops))
    for name, text in corpus_files.corpus():
        ops = [("R", {}), ("W", {}), ("W", {})]
        bad = oracle(text, ops)
        if bad:
            res.oracle_violations.append({"payload": {"text": text, "ops": ops}, "what": "%s: %s" % (name, bad)})
        c, r = wm.coq_case(text, ops)
        cases.append(c)
        meta.append((text, ops))
        hist["corpus"] = hist.get("corpus", 0) + 1
    if ctx.build.model_ok:
        mism, err = lib.run_coq_cases("c16", [], wm.RUN_PIPE, cases, shard=10)
        res.corr_error = err
        for i in mism:
            res.mismatches.append({"text": meta[i][0], "ops": repr(meta[i][1])})
    else:
        res.corr_error = "model not built"
    if unexpected:
        res.corr_error = ((res.corr_error + "; ") if res.corr_error else "") + \
            "%d object(s) built as writable could not be written: %s" % (len(unexpected), "; ".join(unexpected[:3]))
    res.cases = len(cases) + (0 if SCRATCH_BUILT_MODEL else hist.get("scratch_built", 0))
    res.distinct_nontrivial = len(kinds)
    res.rule = ("LASFiles read (default and other read options) from generated text (STRT/STOP consistent with the data or not; "
                "increasing, decreasing, constant, irregular, single-sample indexes; empty values with units; text curves, duplicated / "
                "blank curve mnemonics, custom sections, missing STRT/STOP/STEP/NULL items), then left alone / index_initial cleared / "
                "index replaced / another curve replaced by numbers or text / one of ten header edits, and LASFiles built from scratch "
                "(lasio.LASFile() + append_curve), written 1-3 times with one of 21 option sets (%f %e %g %d formats, column_fmt for any "
                "column, lhs_spacer); plus the example corpus written twice; observed: every text and the full snapshot after the last "
                "write; non-trivial = distinct (edit mode, consistent?, option set, write count, features)")
    res.samples = [repr(meta[0][1]), repr(meta[1][1])]
    res.histogram = hist
    return res


def fix_ops(ops):
    out = []
    for o in ops:
        o = list(o)
        if o[0] == "EB":
            o[1] = [tuple(c) for c in o[1]]
        if o[0] in ("R", "W"):
            kw = dict(o[1])
            if "column_fmt" in kw and kw["column_fmt"]:
                kw["column_fmt"] = {int(a): b for a, b in kw["column_fmt"].items()}
            o[1] = kw
        out.append(tuple(o))
    return out


EXPLAINED = ("two consecutive write() outputs differ", "second write() changed the object again",
             "write(wrap=...) changed ~Version beyond the WRAP item")


def finding_of(payload):
    """duplicate-wrap: ~Version holds >= 2 WRAP items, wrap= is given, AND the first failing clause is determinism / idempotence, AND
    the two outputs (snapshots) are equal once the WRAP lines (items) are left out, and so are the snapshots before and after the first
    write - i.e. the ONLY thing wrong is the WRAP item appended on every call (the frame clause sees it first: the appended item
    is not "the WRAP item").  Anything else on such a payload is a new violation."""
    import re
    text = payload.get("text", "")
    m = re.search(r"~V[^\n]*\n(.*?)(?=\n\s*~|\Z)", text, re.S | re.I)
    body = m.group(1) if m else ""
    nwrap = sum(1 for ln in body.split("\n") if re.match(r"\s*WRAP\s*\.", ln, re.I))
    gives_wrap = any(o[0] == "W" and o[1].get("wrap") is not None for o in payload.get("ops", []))
    if not (nwrap >= 2 and gives_wrap):
        return None
    detail = {}
    try:
        bad = oracle(text, fix_ops(payload["ops"]), detail)
    except Exception:
        return None
    if not bad or not bad.startswith(EXPLAINED) or "outs" not in detail:
        return None
    strip = lambda t: [ln for ln in t.split("\n") if not re.match(r"\s*WRAP\s*\.", ln, re.I)]

    def nowrap(sn):
        return {k: ([x for x in v if x[1].upper().split(":")[0] != "WRAP"] if k == "Version" else v) for k, v in sn.items()}
    o, sn = detail["outs"], detail["snaps"]
    if strip(o[0]) == strip(o[1]) and nowrap(sn[0]) == nowrap(sn[1]) and nowrap(detail["before"]) == nowrap(sn[0]):
        return "duplicate-wrap"
    return None


def replay(payload):
    bad = oracle(payload["text"], fix_ops(payload["ops"]))
    return bad is not None, bad or "ok"


def search(ctx, res):
    import random
    rng = random.Random(ctx.seed + 81)
    for _ in range(6000):
        text, ops, mode, consistent, feats = gen_case(rng)
        bad = oracle(text, ops)
        if bad:
            yield {"payload": {"text": text, "ops": ops}, "what": bad}
            return
