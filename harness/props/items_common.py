"""Shared by c13/c15/c17: operation sequences on a real lasio SectionItems, their canonical
observation (the same text coq/Model/ItemsObs.v renders from the model), op alphabets.

An operation is a list of strings  [code, arg, ...]  (codes as in ItemsObs.apply_op):
  a name val data | i pos name val data | d key | e int | r key name val data |
  s int name val data | v key val | w int val | g key default | h key srcpos |
  x key name val data | y key val | m | t name | n int name
"""
import itertools

import numpy as np

import lib

FS, RS = "|", "~"      # ASCII separators of the case input (see ItemsObs.v); never part of a generated name

NAMES = ["A", "a", "B", "", " ", "A:1"]
POSITIONS = [0, 1, -1, 99, -99]          # 99 = "end" for insert (clamped) / out of range otherwise
SLICES = [(None, None, None), (1, None, None), (None, -1, None), (-2, 5, None), (0, None, 2), (3, 1, None),
          (-9, 2, None), (1, 9, 3)]
PROBE_KEYS = ["A", "a", "B", "", "A:1", "a:2", "UNKNOWN", "unknown:1", "Z"]
PROBE_INTS = [0, 1, 3, -1, -2, -4, 7, -8]


# ---- canonical rendering --------------------------------------------------------------------
def dtype_code(dt):
    """'' for float64 (the default), else numpy's type string without the byte-order mark: f4 i4 i8 b1 O U2 M8[s]"""
    dt = np.dtype(dt)
    return "" if dt == np.float64 else dt.str[1:]


def render_data(d):
    """D<shape><dtype code>:<cells>  -  shape = n for a 1-D array, n x m for 2-D, '0d' for a 0-d array; the dtype code
    is empty for float64.  An array without elements is 'D0:<dtype code>' (the model's nan_like keeps it as it is), an
    all-NaN array '...:nan'.  The text in front of the colon is what Items.nan_like keeps of the first curve's data for
    get(add=True): np.asarray(data) * nan keeps shape and dtype of every floating dtype."""
    if d is None:
        return "-"
    a = np.asarray(d)
    code = dtype_code(a.dtype)
    if a.ndim == 1 and a.shape[0] == 0:
        return "D0:" + code
    head = "D" + ("x".join(str(k) for k in a.shape) if a.ndim else "0d") + code
    flat = a.ravel()
    try:
        if flat.size and np.all(np.isnan(flat.astype(float))):
            return head + ":nan"
        return head + ":" + ",".join(str(int(x)) for x in flat)
    except (TypeError, ValueError):
        return head + ":" + ",".join(str(x) for x in flat)


def parse_data(s):
    """inverse of render_data for the arrays the generators write (numbers, text, datetime64[s] given as seconds)"""
    import re
    if s == "-":
        return None
    head, body = s[1:].split(":", 1)
    if head == "0":
        return np.array([], dtype=np.dtype(body) if body else float)
    m = re.match(r"^(0d|[0-9]+(?:x[0-9]+)*)(.*)$", head)
    shape = () if m.group(1) == "0d" else tuple(int(k) for k in m.group(1).split("x"))
    code = m.group(2)
    size = int(np.prod(shape)) if shape else 1
    cells = [np.nan] * size if body == "nan" else body.split(",")
    if code.startswith("U"):
        a = np.array([str(x) for x in cells], dtype=code)
    elif code.startswith("M8"):
        a = np.array([int(x) for x in cells], dtype="i8").astype(code)
    elif code == "O":
        a = np.empty(size, dtype=object)
        a[:] = [float(x) for x in cells]
    else:
        a = np.array([float(x) for x in cells]).astype(np.dtype(code) if code else float)
    return a.reshape(shape)


def render_item(it):
    from lasio import CurveItem
    return "/".join([it.original_mnemonic, it.mnemonic, str(it.unit), str(it.value), str(it.descr),
                     render_data(it.data), "C" if isinstance(it, CurveItem) else "H"])


def tf(b):
    return "T" if b else "F"


def render_state(s):
    return ",".join(render_item(it) for it in list.__iter__(s)) + ";" + tf(s.mnemonic_transforms)


def render_keys(s):
    return ",".join(it.mnemonic for it in list.__iter__(s)) + ";" + tf(s.mnemonic_transforms)


def index_of(s, obj):
    for j, x in enumerate(list.__iter__(s)):
        if x is obj:
            return str(j)
    return "notfound"


def exc(e):
    return type(e).__name__


def clone(s):
    from lasio import SectionItems
    c = SectionItems(list(list.__iter__(s)))
    if s.mnemonic_transforms:
        c.mnemonic_transforms = True
    return c


# ---- running one sequence on the implementation ----------------------------------------------
class Sim:
    def __init__(self, tr, curve):
        from lasio import SectionItems
        self.s = SectionItems()
        if tr:
            self.s.mnemonic_transforms = True
        self.tr = tr
        self.curve = curve

    def mk(self, name, val, dat):
        """every item carries distinguishable unit and descr tags derived from its value tag (ItemsObs.mk does the
        same), so that a unit/descr mix-up (get() with an item default, set_item, __reduce__) shows"""
        from lasio import CurveItem, HeaderItem
        if self.curve:
            return CurveItem(name, unit="u" + val, value=val, descr="d" + val, data=parse_data(dat))
        return HeaderItem(name, unit="u" + val, value=val, descr="d" + val)

    def apply(self, f):
        s = self.s
        c = f[0]
        try:
            if c == "a":
                s.append(self.mk(f[1], f[2], f[3]))
            elif c == "i":
                s.insert(int(f[1]), self.mk(f[2], f[3], f[4]))
            elif c == "d":
                del s[f[1]]
            elif c == "e":
                del s[int(f[1])]
            elif c == "r":
                s[f[1]] = self.mk(f[2], f[3], f[4])
            elif c == "s":
                s[int(f[1])] = self.mk(f[2], f[3], f[4])
            elif c == "v":
                s[f[1]] = f[2]
            elif c == "w":
                s[int(f[1])] = f[2]
            elif c == "g":
                it = s.get(f[1], f[2], add=True)
                return "ok" + index_of(s, it)
            elif c == "h":
                try:
                    di = list.__getitem__(s, int(f[2]))
                except IndexError:
                    return "skip"
                it = s.get(f[1], di, add=True)
                return "ok" + index_of(s, it)
            elif c == "x":
                setattr(s, f[1], self.mk(f[2], f[3], f[4]))
            elif c == "y":
                setattr(s, f[1], f[2])
                # a plain value on a missing key becomes an ordinary Python attribute of the
                # object (language level, excluded from the statement): remove it again
                if f[1] in s.__dict__ and f[1] != "mnemonic_transforms":
                    del s.__dict__[f[1]]
            elif c == "m":
                s.assign_duplicate_suffixes()
            elif c == "t":
                s.assign_duplicate_suffixes(f[1])
            elif c == "n":
                list.__getitem__(s, int(f[1]))       # IndexError first, as s[int] would
                s[int(f[1])].mnemonic = f[2]
            else:
                return "?"
        except Exception as e:      # noqa: BLE001 - the class name is the observation
            return exc(e)
        return "ok"

    def ident(self):
        s = self.s
        rows_i, rows_a = [], []
        for it in list(list.__iter__(s)):
            k = it.mnemonic
            try:
                rows_i.append(index_of(s, s[k]))
            except Exception as e:      # noqa: BLE001
                rows_i.append(exc(e))
            try:
                rows_a.append(index_of(s, getattr(s, k)))
            except Exception as e:      # noqa: BLE001
                rows_a.append(exc(e))
        return "I=" + ",".join(rows_i) + ";A=" + ",".join(rows_a)

    def probes(self, pk, pi):
        s = self.s
        out_k = []
        for k in pk:
            present = None
            try:
                present = k in s
                c = tf(present)
            except Exception as e:      # noqa: BLE001
                c = exc(e)
            try:
                g = index_of(s, s[k])
            except Exception as e:      # noqa: BLE001
                g = exc(e)
            try:
                a = index_of(s, getattr(s, k))
            except Exception as e:      # noqa: BLE001
                a = exc(e)
            before = render_state(s)
            try:
                it = s.get(k, "dv")
                t = ("i" + index_of(s, it)) if present else ("n(" + render_item(it) + ")")
                t += "=" if render_state(s) == before else "!"
            except Exception as e:      # noqa: BLE001
                t = exc(e)
            cl = clone(s)
            try:
                del cl[k]
                d = render_keys(cl)
            except Exception as e:      # noqa: BLE001
                d = exc(e)
            out_k.append(" ".join([c, g, a, t, d]))
        out_i = []
        for z in pi:
            try:
                c = tf(z in s)
            except Exception as e:      # noqa: BLE001
                c = exc(e)
            try:
                g = index_of(s, s[z])
            except Exception as e:      # noqa: BLE001
                g = exc(e)
            cl = clone(s)
            try:
                del cl[z]
                d = render_keys(cl)
            except Exception as e:      # noqa: BLE001
                d = exc(e)
            out_i.append(" ".join([c, g, d]))
        out_s = []
        for (a, b, st) in SLICES:
            try:
                out_s.append(render_keys(s[slice(a, b, st)]))
            except Exception as e:      # noqa: BLE001
                out_s.append(exc(e))
        cl = clone(s)
        try:
            del cl[:]
            ds = render_keys(cl)
        except Exception as e:      # noqa: BLE001
            ds = exc(e)
        return "|".join(out_k) + "#" + "|".join(out_i) + "#" + "|".join(out_s) + "#" + ds


def case_input(tr, curve, mode, pk, pi, ops):
    recs = [FS.join([tf(tr), tf(curve), mode]),
            "" if pk is PROBE_KEYS else FS.join(pk), "" if pi is PROBE_INTS else FS.join(str(z) for z in pi)]
    recs += [FS.join(o) for o in ops]
    for o in ops:
        for a in o:
            assert FS not in a and RS not in a, o
    return RS.join(recs)


def digest(text):
    a = b = d = 0
    for ch in text:
        a += ord(ch) + 1
        b += a
        d += b
    return "%d.%d.%d" % (a, b, d)


def run_sequence(tr, curve, ops, mode="l", pk=PROBE_KEYS, pi=PROBE_INTS, on_step=None):
    """Returns (case input, expected observation, Sim).  mode: l light, i identity rows per
    step, h heavy probes after the last step.  on_step(sim, op, result, before_snapshot)."""
    sim = Sim(tr, curve)
    lines = []
    for o in ops:
        snap = snapshot(sim.s) if on_step else None
        r = sim.apply(o)
        line = r + "|" + render_state(sim.s)
        if mode == "i":
            line += "|" + sim.ident()
        lines.append(line)
        if on_step:
            on_step(sim, o, r, snap)
    exp = "\n".join(lines)
    if mode == "h":
        exp += "\n#" + sim.probes(pk, pi)
    return case_input(tr, curve, mode, pk, pi, ops), exp, sim


def snapshot(s):
    """[(object, original, session, unit, value, descr, data-render)] of the live section"""
    return [(it, it.original_mnemonic, it.mnemonic, it.unit, it.value, it.descr, render_data(it.data))
            for it in list.__iter__(s)]


RUN_CASE = "Require Import Items ItemsObs.\nDefinition run (i : list N) : list N := run_case i.\n"
RUN_DIGEST = "Require Import Items ItemsObs.\nDefinition run (i : list N) : list N := run_digest i.\n"
RUN_COPY = "Require Import Items ItemsObs.\nDefinition run (i : list N) : list N := run_copy i.\n"
RUN_COPY_DIGEST = "Require Import Items ItemsObs.\nDefinition run (i : list N) : list N := run_copy_digest i.\n"


# ---- operation alphabets ----------------------------------------------------------------------
class OpGen:
    """Builds operations with fresh value tags so that items are distinguishable."""

    def __init__(self, curve):
        self.curve = curve
        self.n = 0

    def item_args(self, name):
        self.n += 1
        return [name, "v%d" % self.n, self.data_arg() if self.curve else "-"]

    def data_arg(self):
        """curve arrays of the floating dtypes (np.asarray(data) * nan keeps their dtype and shape, which is what the
        model's nan_like assumes), 1-D, 2-D and empty; with all_dtypes (implementation side only, C17) also int32,
        int64, bool, datetime64, object and text arrays"""
        n = self.n
        if getattr(self, "all_dtypes", False):
            k = n % 12
            if k == 5:
                return "D2i4:%d,%d" % (n, n)
            if k == 6:
                return "D2i8:%d,%d" % (n, n)
            if k == 7:
                return "D2b1:1,0"
            if k == 8:
                return "D2M8[s]:%d,%d" % (n, n + 60)
            if k == 9:
                return "D2O:%d,%d" % (n, n)
            if k == 10:
                return "D2U2:a%d,b" % (n % 10)
            if k == 11:
                return "D0:i4"
        k = n % 6
        if k == 1:
            return "D2f4:%d,%d" % (n, n)
        if k == 3:
            return "D1x2:%d,%d" % (n, n)
        if k == 4:
            return "D2x1f4:%d,%d" % (n, n)
        if k == 5 and n % 12 == 5:
            return "D0:f4"
        return "D2:%d,%d" % (n, n)

    def val(self):
        self.n += 1
        return "p%d" % self.n


def instantiate(templates, curve, all_dtypes=False, start=0):
    """templates: list of tuples; ('a', name) etc. with item args filled in freshly.  all_dtypes / start: see
    OpGen.data_arg (arrays of every dtype, implementation side only; start = first value of the tag counter)"""
    g = OpGen(curve)
    g.all_dtypes = all_dtypes
    g.n = start
    return [instantiate_one(t, g) for t in templates]


DEL_KEYS = ["A", "a", "B", "A:1", "A:2", "UNKNOWN", "UNKNOWN:1", "Z"]


def full_alphabet():
    ops = [("a", n) for n in NAMES]
    ops += [("i", p, n) for p in POSITIONS for n in NAMES]
    ops += [("e", p) for p in POSITIONS]
    ops += [("d", k) for k in DEL_KEYS]
    ops += [("r", k, n) for k in ["A", "A:1", "A:2", "UNKNOWN", "Z"] for n in ["A", "a", "", "A:1"]]
    ops += [("s", p, n) for p in [0, -1, 99] for n in ["A", "", "A:1"]]
    ops += [("v", k) for k in ["A", "A:1", "Z"]] + [("w", p) for p in [0, 99]]
    ops += [("g", k) for k in ["A", "a", "", "Z"]]
    ops += [("x", "A", "A"), ("x", "A:1", "A"), ("x", "Z", "A"), ("x", "UNKNOWN", " ")]
    ops += [("y", "A"), ("y", "Z")]
    ops += [("h", "Z", 0), ("m",), ("t", "A"), ("n", 0, "A"), ("n", -1, "")]
    return ops


def mid_alphabet():
    ops = [("a", n) for n in NAMES]
    ops += [("i", p, n) for p in [0, 1, -1] for n in ["A", "a", "", "A:1"]]
    ops += [("e", p) for p in [0, 1, -1, 99]]
    ops += [("d", k) for k in ["A", "A:1", "A:2", "UNKNOWN:1"]]
    ops += [("r", k, n) for k in ["A:1", "A:2", "A"] for n in ["A", "B"]]
    ops += [("s", 0, "A"), ("s", -1, "A:1"), ("g", "A"), ("g", "")]
    return ops


def core_alphabet():
    return [("a", "A"), ("a", "a"), ("a", ""), ("a", "A:1"), ("a", "B"),
            ("i", 0, "A"), ("i", -1, " "),
            ("e", 0), ("e", -1), ("d", "A:1"),
            ("r", "A:2", "A"), ("r", "A:1", "B"), ("s", 0, "A:1")]


def micro_alphabet():
    return [("a", "A"), ("a", "a"), ("a", ""), ("a", "A:1"), ("i", 0, "A"), ("e", 0), ("e", -1),
            ("r", "A:2", "A"), ("d", "A:1")]


def gap_alphabet():
    """a group of three or more same-named (or blank) items that loses a member other than its last one and then
    grows again: the numbering must be :1..:n once more"""
    return [("a", "A"), ("a", ""), ("d", "A:2"), ("e", 0), ("e", 1), ("r", "A:1", "B")]


INTLIKE_PROBE_KEYS = ["1", "0", "-1", "A", "a", "1:1", "Z", "UNKNOWN"]


def intlike_alphabet():
    """integer-like mnemonics ("1", "0", "-1") that end up at positions other than the one they
    spell, edited and probed through int keys 0, 1, -1 (s[int], del s[int], s[int] = item / value)"""
    return [("a", "1"), ("a", "0"), ("a", "-1"), ("a", "A"), ("i", 0, "1"), ("i", 0, "A"),
            ("e", 0), ("e", 1), ("e", -1), ("s", 0, "A"), ("s", 1, "0"), ("w", 1), ("w", -1), ("d", "1")]


def sequences(alphabet, length, exact=True):
    lens = [length] if exact else range(1, length + 1)
    for n in lens:
        for t in itertools.product(alphabet, repeat=n):
            yield list(t)


RAND_NAMES = NAMES + ["UNKNOWN", "unknown", "A:2", "a:1", "B:1", "UNKNOWN:1", "b", "AB", "A:01", "1", "0", "-1", "1", "0"]


def random_template(rng, keys_hint):
    """One random operation; keys_hint = current session names (to hit present keys)."""
    def name():
        return rng.choice(RAND_NAMES)

    def key():
        if keys_hint and rng.random() < 0.7:
            k = rng.choice(keys_hint)
            if rng.random() < 0.25:
                k = k.swapcase()
            return k
        return rng.choice(RAND_NAMES + ["Z", "A:3", "UNKNOWN:2"])

    def pos():
        return rng.choice([0, 1, 2, -1, -2, 3, 99, -99, len(keys_hint), -len(keys_hint) - 1, len(keys_hint) - 1])

    r = rng.random()
    if r < 0.28:
        return ("a", name())
    if r < 0.45:
        return ("i", pos(), name())
    if r < 0.53:
        return ("e", pos())
    if r < 0.61:
        return ("d", key())
    if r < 0.71:
        return ("r", key(), name())
    if r < 0.77:
        return ("s", pos(), name())
    if r < 0.81:
        return ("v", key())
    if r < 0.84:
        return ("w", pos())
    if r < 0.89:
        return ("g", key())
    if r < 0.91:
        return ("h", key(), pos())
    if r < 0.94:
        k = key()
        return ("x", k, rng.choice([k, name()]))
    if r < 0.96:
        return ("y", key())
    if r < 0.97:
        return ("m",)
    if r < 0.98:
        return ("t", name())
    return ("n", pos(), name())


def random_sequence(rng, max_len, tr, curve):
    """Random sequence built against a live section (so that keys are often present)."""
    sim = Sim(tr, curve)
    g = OpGen(curve)
    n = rng.randint(1, max_len)
    tmpl = []
    for _ in range(n):
        t = random_template(rng, [it.mnemonic for it in list.__iter__(sim.s)])
        tmpl.append(t)
        sim.apply(instantiate_one(t, g))
    return tmpl


def instantiate_one(t, g):
    c = t[0]
    if c == "a":
        return ["a"] + g.item_args(t[1])
    if c == "i":
        return ["i", str(t[1])] + g.item_args(t[2])
    if c in ("d", "e"):
        return [c, str(t[1])]
    if c in ("r", "s", "x"):
        return [c, str(t[1])] + g.item_args(t[2])
    if c in ("v", "w", "y"):
        return [c, str(t[1]), g.val()]
    if c == "g":
        return ["g", t[1], g.val()]
    if c == "h":
        return ["h", t[1], str(t[2])]
    if c == "m":
        return ["m"]
    if c == "t":
        return ["t", t[1]]
    if c == "n":
        return ["n", str(t[1]), t[2]]
    raise ValueError(t)


# ---- the signature of the known finding "suffix-clash" -------------------------------------------
def names_of_ops(ops):
    out = []
    for o in ops:
        c = o[0]
        if c == "a":
            out.append(o[1])
        elif c in ("i", "r", "s", "x"):
            out.append(o[2])
        elif c in ("g", "h"):
            out.append(o[1])
        elif c == "n":
            out.append(o[2])
    return out


def useful(name):
    return "UNKNOWN" if name.strip() == "" else name


GEN_SUFFIX = r"^(.*):([1-9][0-9]*)$"      # what  useful + ":%d" % n  (n >= 1) can produce: "A:01", "A:0" are not generated


def has_suffix_clash(names, tr=True):
    """Names-only pre-filter (a statistic, NOT the signature of the finding: see clash_pairs): a literal
    u:<k>  (k spelled as "%d" prints it) together with a name whose useful mnemonic is u, compared the way the
    section compares names: upper-cased when mnemonic_transforms is on (tr), exactly otherwise."""
    import re
    nm = (lambda x: x.upper()) if tr else (lambda x: x)
    us = {nm(useful(n)) for n in names}
    for n in names:
        m = re.match(GEN_SUFFIX, n, re.S)
        if m and nm(m.group(1)) in us:
            return True
    return False


def clash_pairs(s):
    """The known finding suffix-clash as it shows in ONE state of a section: the set of position pairs (i, j),
    i < j, of two items whose session names are equal the way the section compares them (upper-cased when
    mnemonic_transforms is on, exactly otherwise), one of the two being LITERALLY its original name  u:<k>
    (session == original, k spelled as "%d" prints it) and the other an item named u (useful mnemonic, same
    comparison) that carries the generated suffix  :<k>.  "A:01" next to A, A is no clash: no suffix is spelled
    that way."""
    import re
    lst = list(list.__iter__(s))
    nm = (lambda x: x.upper()) if s.mnemonic_transforms else (lambda x: x)
    out = set()
    for i, x in enumerate(lst):
        m = re.match(GEN_SUFFIX, x.original_mnemonic, re.S)
        if not m or x.mnemonic != x.original_mnemonic:
            continue
        for j, y in enumerate(lst):
            uy = useful(y.original_mnemonic)
            if (j != i and y.mnemonic == uy + ":" + m.group(2) and nm(uy) == nm(m.group(1))
                    and nm(y.mnemonic) == nm(x.mnemonic)):
                out.add((min(i, j), max(i, j)))
    return out
