"""C08 — header values become numbers only when they are plain decimal literals."""
import decimal
import itertools
import re

import numpy as np

import lib
import readmodel as rm

PROP = "C08"
MODEL_TARGETS = ["Model/Num.vo", "Corr/ReadShow.vo"]
THEOREMS = ["C08_verbatim", "C08_integer", "C08_float", "C08_guard_current", "C08_api_uwi", "C08_api_uwi_any_case", "C08_curves_raw", "C08_parameter_num", "C08_other_num",
            "C08_num_current", "C08_curves_current", "C08_params_current", "C08_metadata_current",
            "C08_parser_init_current", "C08_parser_call_current"]
ASSUMPTIONS = [
    "oracle: np.float64(text) is the correctly rounded double of a decimal literal (checked bit-exactly per case against decimal.Decimal)",
    "model of int()/float() literal syntax (PyLib/NumLit.v) is exact for ASCII strings; non-ASCII digits are rejected by the guard before they are reached",
]

ALPHA = "019+-.,eE_ a/:"

# independent recogniser, written from the property statement
LIT = re.compile(r"[+-]?(?:[0-9]+,[0-9]+|[0-9]+\.[0-9]*|\.[0-9]+|[0-9]+)(?:[eE][+-]?[0-9]+)?\Z")
INTLIT = re.compile(r"[+-]?[0-9]+\Z")


def expected_by_statement(s):
    """('int', v) | ('float', v) | ('str', s) according to the statement."""
    if not LIT.match(s) or not s.isascii():
        return ("str", s)
    t = s.replace(",", ".")
    if INTLIT.match(t):
        v = int(t)
        if -2 ** 63 <= v < 2 ** 63:
            return ("int", v)
    # exact value of the literal: mantissa digits and decimal exponent as Python ints
    mm = re.match(r"([+-]?)([0-9]*)\.?([0-9]*)(?:[eE]([+-]?[0-9]+))?\Z", t)
    sign, ip, fp, ex = mm.group(1), mm.group(2), mm.group(3), int(mm.group(4) or "0")
    digits = (ip + fp).lstrip("0")
    if digits == "":
        return ("float", -0.0 if sign == "-" else 0.0)
    adj = len(digits) + ex - len(fp)          # value in [10^(adj-1), 10^adj)
    if adj > 400:
        return ("str", s)
    if adj < -400:
        return ("float", -0.0 if sign == "-" else 0.0)
    with decimal.localcontext() as c:
        c.prec = len(digits) + 10
        f = float(decimal.Decimal(sign + digits) * (decimal.Decimal(10) ** (ex - len(fp))))
    if f in (float("inf"), float("-inf")):
        return ("str", s)
    return ("float", f)


def impl_num(s):
    from lasio.reader import SectionParser
    sp = SectionParser("~W", version=2.0)
    return classify(sp.num(s))


def classify(v):
    if isinstance(v, (bool, np.bool_)):
        return ("other", repr(v))
    if isinstance(v, (int, np.integer)):
        return ("int", int(v))
    if isinstance(v, (float, np.floating)):
        return ("float", float(v))
    if isinstance(v, str):
        return ("str", v)
    return ("other", repr(v))


def same(a, b):
    if a[0] != b[0]:
        return False
    if a[0] == "float":
        return float(a[1]).hex() == float(b[1]).hex()
    return a[1] == b[1]


def canon(o):
    if o[0] == "int":
        return "I:%d" % o[1]
    if o[0] == "float":
        return "F:" + float(o[1]).hex()
    if o[0] == "str":
        return "S:" + o[1]
    return "O:" + str(o[1])


def comma_variants(s):
    idx = [i for i, ch in enumerate(s) if ch == ","]
    if len(idx) > 6:
        idx = idx[:6]
    out = []
    for mask in itertools.product([0, 1], repeat=len(idx)):
        t = list(s)
        for i, mk in zip(idx, mask):
            if mk:
                t[i] = "."
        out.append("".join(t))
    return out


def table_for(s):
    parts = []
    for t in comma_variants(s):
        try:
            h = float(np.float64(t)).hex()
        except Exception:
            h = "ERR"
        parts += [t, h]
    return parts


RUN_NUM = """
Require Import Regex NumLit Regexes Num.
Open Scope N_scope.
Fixpoint lookup (k : list N) (t : list (list N)) : list N :=
  match t with
  | a :: b :: t' => if str_eqb a k then b else lookup k t'
  | _ => [63]
  end.
Definition show (t : list (list N)) (v : hval) : list N :=
  match v with
  | VInt z => 73 :: 58 :: Z_to_str z
  | VFloat l => 70 :: 58 :: lookup l t
  | VStr s => 83 :: 58 :: s
  | VNone => [79]
  end.
Definition run (i : list N) : list N :=
  match fields i with
  | s :: t => show t (num s)
  | [] => []
  end.
"""

# ---- file level -------------------------------------------------------------------------
SECTIONS = [("~Version", "Version"), ("~Well", "Well"), ("~Parameter", "Parameter"), ("~Zcustom", "Zcustom")]
MNEMS = ["XVAL", "API", "UWI", "api", "Uwi", "aPi"]


WELL_12_VALUE_FIRST = ("STRT", "STOP", "STEP", "NULL", "strt", "stop", "step", "null")


def file_for(sect_title, mnem, value, version):
    v = "~Version\nVERS. %s : v\nWRAP. NO : w\n" % version
    body = "%s.   %s  : descr text\n" % (mnem, value)
    if sect_title == "~Well" and version == "1.2" and mnem not in WELL_12_VALUE_FIRST:
        # a LAS 1.2 ~Well line carries the value AFTER the colon: `UWI.  UNIQUE WELL ID : 007`
        body = "%s.   descr text  : %s\n" % (mnem, value)
    if sect_title == "~Version":
        txt = v + body
    else:
        txt = v + sect_title + "\n" + body
    txt += "~Curves\nDEPT.M  %s : depth\n~A\n1.0\n2.0\n" % value
    return txt


def file_value_ok(value):
    """values that the header-line grammar passes through unchanged as the value field"""
    return (value != "" and not any(ch.isspace() for ch in value) and ":" not in value
            and ".." not in value and not value.startswith("."))


def oracle_file(sect, mnem, value, version):
    """Returns None if fine, else description."""
    import lasio
    title, key = sect
    txt = file_for(title, mnem, value, version)
    try:
        las = lasio.read(txt, mnemonic_case="preserve")
    except Exception as e:
        return "read raised %r" % (e,)
    item = las.sections[key][mnem]
    got = classify(item.value)
    # (a value that comes back EMPTY is a difference like any other; 1.2 ~Well lines carry the value in the description slot,
    # see file_for, and are judged like every other line)
    if item.descr != "descr text":
        return "section %s item %s (VERS %s): description came back as %r" % (key, mnem, version, item.descr)
    if mnem.upper() in ("API", "UWI") and key != "Parameter":
        exp = ("str", value)
    else:
        exp = expected_by_statement(value)
    if not same(got, exp):
        return "section %s item %s (VERS %s) value %r -> %r, statement expects %r" % (key, mnem, version, value, got, exp)
    cv = las.curves[0].value
    if not isinstance(cv, str) or cv != value:
        return "~Curves value %r came back as %r" % (value, cv)
    return None


def gen_strings(ctx):
    rng = ctx.rng
    L = 4 if ctx.thorough else 3
    out = []
    hist = {"exhaustive": 0, "near_literal": 0, "malformed": 0, "corpus": 0}
    corpus = ["15_9", "1_0.5", "12-34-12-34W5M", "inf", "nan", "-inf", "Infinity", "NaN", "0x1A", "", "1e5", "1E5",
              "5.", ".5", "5,", ",5", "5,5", "1,234,567", "1,2,3", "00012", "+5", "-0", "9223372036854775807",
              "9223372036854775808", "-9223372036854775808", "-9223372036854775809", "1e308", "1.7976931348623157e308",
              "1.7976931348623158e308", "1.7976931348623159e308", "1.8e308", "1e309", "1e-400", "4.9e-324", "2e-324",
              "179769313486231580793728971405303415079934132710037826936173778980444968292764750946649017977587207096330286416692887910946555547851940402630657488671505820681908902000708383676273854845817711531764475730270069855571366959622842914819860834936475292719074168444365510704342711559699508093042880177904174497791.9999999",
              "179769313486231580793728971405303415079934132710037826936173778980444968292764750946649017977587207096330286416692887910946555547851940402630657488671505820681908902000708383676273854845817711531764475730270069855571366959622842914819860834936475292719074168444365510704342711559699508093042880177904174497792",
              "\u0661\u0662", "\uff11\uff12", "1\u00a02", "23:15", "2001-01-23", "1/2", "1e", "e5", "1e+", "1e+5", "1.e5", ".e5", ".",
              "+", "-", "+.5", "-.5e-3", "1__2", "_1", "1_", "1e1_0", "1_0e1", "0.0", "-0.0", "1.5e3", "1,5e3", "1e5,5",
              "1 000", " 5", "5 ", "١", "1e99999999999999999999", "1e-99999999999999999999", "0e99999999999999999999",
              "0.000000000000000000000000000000000000000000001e400"]
    for s in corpus:
        out.append(s)
        hist["corpus"] += 1
    for n in range(1, L + 1):
        for t in itertools.product(ALPHA, repeat=n):
            s = "".join(t)
            if s != s.strip():
                continue       # values reach num() stripped
            out.append(s)
            hist["exhaustive"] += 1
    n_rand = 20000 if ctx.thorough else 3000
    for _ in range(n_rand):
        k = rng.randint(1, 24)
        kind = rng.random()
        if kind < 0.7:
            # near literal: build a literal and perturb
            s = rng.choice(["", "+", "-"]) + "".join(rng.choice("0123456789") for _ in range(rng.randint(0, 6)))
            if rng.random() < 0.6:
                s += rng.choice(".,") + "".join(rng.choice("0123456789") for _ in range(rng.randint(0, 5)))
            if rng.random() < 0.4:
                s += rng.choice("eE") + rng.choice(["", "+", "-"]) + "".join(rng.choice("0123456789") for _ in range(rng.randint(0, 3)))
            if rng.random() < 0.35 and s:
                i = rng.randrange(len(s) + 1)
                s = s[:i] + rng.choice("_ ,.eE+-a:/0") + s[i:]
            hist["near_literal"] += 1
        else:
            s = "".join(rng.choice(ALPHA + "xXnNiIfF\u0663") for _ in range(k))
            hist["malformed"] += 1
        s = s.strip()
        out.append(s)
    # dedupe, keep order
    seen = set()
    res = []
    for s in out:
        if s not in seen and "\ue000" not in s:
            seen.add(s)
            res.append(s)
    return res, hist


def run(ctx):
    res = lib.Result()
    strings, hist = gen_strings(ctx)
    cases = []
    nontrivial = set()
    for s in strings:
        got = impl_num(s)
        exp = expected_by_statement(s)
        if not same(got, exp):
            res.oracle_violations.append({"payload": {"kind": "num", "s": s},
                                          "what": "num(%r) -> %r, statement expects %r" % (s, got, exp)})
        if exp[0] != "str" or any(ch.isdigit() for ch in s):
            nontrivial.add(s)
        cases.append((lib.fields(s, *table_for(s)), canon(got)))
    # file level (implementation + oracle; the model tie for whole files is C03/C05's)
    n_file = 0
    rng = ctx.rng
    file_vals = [s for s in strings if file_value_ok(s)]
    rng.shuffle(file_vals)
    file_vals = ["15_9", "1_0.5", "007", "0012345", "12.5", "1e5", "-999.25", "5,5"] + file_vals[: (3000 if ctx.thorough else 250)]
    file_cases, file_meta = [], []
    # forced combinations: LAS 1.2 ~Well lines (value after the colon) for every mnemonic kind, then the random stream
    forced = [(SECTIONS[1], mn, v, "1.2") for mn in MNEMS for v in ("007", "0012345", "15_9", "12.5", "5,5", "1e5", "0", "-0", "+5")]
    n_well12 = 0
    for k, v in enumerate([f[2] for f in forced] + file_vals):
        if k < len(forced):
            sect, mn, v, ver = forced[k]
        else:
            sect = rng.choice(SECTIONS)
            mn = rng.choice(MNEMS)
            ver = rng.choice(["1.2", "2.0"])
        n_file += 1
        n_well12 += sect[1] == "Well" and ver == "1.2"
        bad = oracle_file(sect, mn, v, ver)
        if bad:
            res.oracle_violations.append({"payload": {"kind": "file", "sect": list(sect), "mnem": mn, "value": v, "version": ver},
                                          "what": bad})
        if v.isascii() and lib.FS not in v:
            txt = file_for(sect[0], mn, v, ver)
            exp, _ = rm.impl_read(txt, mnemonic_case="preserve")
            file_cases.append(rm.coq_case(txt, exp, mnemonic_case="preserve"))
            file_meta.append(txt)
    if ctx.build.model_ok:
        mism, err = lib.run_coq_cases("c08", [], RUN_NUM, cases)
        res.corr_error = err
        for i in mism:
            s = strings[i]
            res.mismatches.append({"input": s, "impl": canon(impl_num(s))})
        if file_cases and not err:
            mism2, err2 = lib.run_coq_cases("c08f", [], rm.RUN_READ, file_cases, shard=60)
            res.corr_error = err2
            for i in mism2:
                res.mismatches.append({"input": file_meta[i], "impl": "whole-file read differs from the model"})
    else:
        res.corr_error = "model not built"
    res.cases = len(cases) + n_file
    res.distinct_nontrivial = len(nontrivial)
    res.rule = ("strings over {digits,sign,'.',',',e,E,_,blank,letters,/,:} exhaustively up to length %d, "
                "random near-literals up to length 24, a malformed stream and a corpus; non-trivial = distinct strings "
                "that contain a digit or are literals; file-level cases place values in ~V/~W/~P/custom items named "
                "XVAL/API/UWI (any case) and in ~Curves; LAS 1.2 ~Well lines carry the value after the colon (UWI. DESCR : 007) and are "
                "judged like every other line" % (4 if ctx.thorough else 3))
    res.samples = strings[:3] + strings[200:203] + strings[-3:]
    hist["file_level"] = n_file
    hist["file_level_well_1.2_value_after_colon"] = n_well12
    res.histogram = hist
    return res


def replay(payload):
    if payload.get("kind") == "file":
        bad = oracle_file(tuple(payload["sect"]), payload["mnem"], payload["value"], payload["version"])
        return (bad is not None), (bad or "ok")
    s = payload["s"]
    got, exp = impl_num(s), expected_by_statement(s)
    return (not same(got, exp)), "num(%r) -> %r, statement expects %r" % (s, got, exp)


def search(ctx, res):
    """After a broken proof/tie: widen the stream."""
    for m in res.mismatches:
        s = m["input"]
        got, exp = impl_num(s), expected_by_statement(s)
        if not same(got, exp):
            yield {"payload": {"kind": "num", "s": s}, "what": "num(%r) -> %r, expects %r" % (s, got, exp)}
    for n in range(1, 6):
        for t in itertools.product(ALPHA, repeat=n):
            s = "".join(t)
            if s != s.strip():
                continue
            got, exp = impl_num(s), expected_by_statement(s)
            if not same(got, exp):
                yield {"payload": {"kind": "num", "s": s}, "what": "num(%r) -> %r, expects %r" % (s, got, exp)}
                return
