"""C20 — every file lasio opens is closed again, whatever fails and wherever.

Tie = dynamic fault enumeration on the implementation.  `builtins.open` / `io.open` are
wrapped (in this process only, and only while a scenario runs): every file lasio opens is a
proxy that records open/closed state, counts the low-level operations (open, read, readline,
__next__, seek, tell, write, flush, close, ...) and raises OSError at the k-th of them, for
EVERY k up to the operation count of the clean run, for each call kind and each input-induced
failure class.  After every call — returned or raised, the exception object kept alive —

  oracle 1: no handle opened by lasio is still open;
  oracle 2: file objects supplied by the caller to write()/to_csv() are still open;
  oracle 3: nothing reachable from the LASFile object is an open handle.

Model side (evaluated inside Coq on the regenerated skeletons, Gen/Skel.v):
  * `leak_free` / `caller_handles_untouched` of each skeleton vs what was observed for the
    corresponding call kind (expected "T" when no run of that kind leaked / closed a caller file);
  * for every observed (function, exit kind, set of handles left open): the analysis' set of
    possibly-open handles at that exit contains it (the model predicts every leak it is shown);
  * for every distinct observed (function, sequence of open/open-failed/close events, returned|raised):
    the skeleton has a run with exactly these events and that outcome (`accepts`, an executable
    acceptor proved sound in Proofs/IOSkelTraceProofs.v) — what the implementation was seen to do is
    among the behaviours the theorems quantify over;
  * every `open` observed at run time happened at a source line the translator turned into an
    `Open`/`With` (Skel.open_sites), and no other module reachable from las.py opens files.
"""
import builtins
import errno
import gc
import io
import json
import os
import pathlib
import sys
import tempfile
import types

import lib

sys.path.insert(0, os.path.join(lib.VERIF, "translators"))

PROP = "C20"
MODEL_TARGETS = ["Model/IOSkel.vo", "Model/IOSkelTrace.vo", "Gen/Skel.vo"]
THEOREMS = ["C20_sound", "C20_sound_general", "C20_ret_sound", "C20_caller_untouched_sound",
            "C20_trace_acceptor_sound", "C20_xexec_is_exec", "C20_accepted_is_clean",
            "C20_read", "C20_write", "C20_to_csv", "C20_adhoc", "C20_open_with_codecs", "C20_open_file",
            "C20_read_exec", "C20_write_exec", "C20_to_csv_exec",
            "C20_caller_untouched_write", "C20_caller_untouched_to_csv", "C20_no_other_open_sites",
            "C20_api_returns_nothing", "C20_caller_untouched_write_exec", "C20_caller_untouched_to_csv_exec"]
ASSUMPTIONS = [
    "translator completeness: every statement of the six functions that can raise is rendered as MayRaise/Open/Close "
    "(all statements other than assignments of names/constants are); NameError/MemoryError/KeyboardInterrupt between two "
    "pure statements are not modelled",
    "close() closes: a file object's close() leaves it closed even when close() itself raises (true of CPython io objects)",
    "functions called from the six translated ones (writer.write, csv.writer, reader.* parsers, numpy) open no files "
    "themselves: checked syntactically for the lasio modules reachable from las.py (Skel.other_open_sites = []), and "
    "dynamically (every observed open comes from a translated open site)",
    "the guards `isinstance(file_ref, str)`, `if opened_file:` and `hasattr(x, \"close\")` behave as the translator's "
    "idiom table says (flag set only next to the open and never reset: checked syntactically)",
    "handles opened by libraries on lasio's behalf (urllib.urlopen, openpyxl) are outside the property's wording",
]
TRUSTED_EXTRA = ["translators/skeleton.py (Python ast -> IOSkel IR, fail-closed)",
                 "the open()/file-object proxy of harness/props/c20.py (fault injection and open/closed bookkeeping)"]

REPO = lib.REPO
LASIO_DIR = os.path.join(os.path.realpath(REPO), "lasio") + os.sep

COUNTED = ("read", "readline", "readlines", "seek", "tell", "write", "writelines", "flush", "truncate",
           "read1", "readinto", "peek")


# ---------------------------------------------------------------------------------------
class Injector:
    def __init__(self):
        self.active = False
        self.reset(None)

    def reset(self, fault_at):
        self.ops = 0
        self.fault_at = fault_at
        self.fired = None          # name of the operation the fault was raised at
        self.owned = []            # proxies for files lasio opened
        self.caller = []           # proxies for files the caller supplied
        self.events = []           # ("O"|"X"|"C", site or "caller"): open ok / open raised / close called

    def tick(self, name):
        """count one low-level operation; True if the fault is due at it"""
        self.ops += 1
        if self.fault_at is not None and self.ops == self.fault_at:
            self.fired = name
            return True
        return False

    def op(self, name):
        if self.tick(name):
            raise OSError(errno.EIO, "injected fault at low-level operation %d (%s)" % (self.ops, name))


INJ = Injector()
_REAL_OPEN = builtins.open
_REAL_IO_OPEN = io.open


class FileProxy(object):
    """stands for one file object; delegates to the real one"""

    def __init__(self, f, owner, site):
        object.__setattr__(self, "_f", f)
        object.__setattr__(self, "_owner", owner)
        object.__setattr__(self, "_site", site)
        object.__setattr__(self, "_closed_by_call", False)

    # bookkeeping ------------------------------------------------------------------------
    @property
    def closed(self):
        return self._f.closed

    def _is_open(self):
        return not self._f.closed

    # counted operations -----------------------------------------------------------------
    def close(self):
        due = INJ.tick("close") if INJ.active else False
        if INJ.active:
            INJ.events.append(("C", self._site if self._owner == "lasio" else "caller"))
        self._f.close()                      # close() closes even when it then reports an error
        object.__setattr__(self, "_closed_by_call", True)
        if due:
            raise OSError(errno.EIO, "injected fault at low-level operation %d (close)" % INJ.ops)

    def __enter__(self):
        return self

    def __exit__(self, *exc):
        self.close()
        return False

    def __iter__(self):
        return self

    def __next__(self):
        if INJ.active:
            INJ.op("__next__")
        return self._f.__next__()

    def __getattr__(self, name):
        a = getattr(self._f, name)
        if name in COUNTED and callable(a):
            def counted(*args, **kw):
                if INJ.active:
                    INJ.op(name)
                return a(*args, **kw)
            return counted
        return a

    def __setattr__(self, name, value):
        setattr(self._f, name, value)

    def __repr__(self):
        return "<FileProxy %s %s opened at %s:%s %s>" % (
            self._owner, getattr(self._f, "name", "?"), self._site[0], self._site[1],
            "open" if self._is_open() else "closed")


def _site_of(frame):
    fn = os.path.realpath(frame.f_code.co_filename)
    if fn.startswith(LASIO_DIR):
        return ("lasio/" + fn[len(LASIO_DIR):], frame.f_lineno)
    return None


def _spy_open(*a, **k):
    if not INJ.active:
        return _REAL_OPEN(*a, **k)
    site = _site_of(sys._getframe(1))
    if site is None:
        return _REAL_OPEN(*a, **k)          # not opened by lasio (numpy, chardet, logging, ...)
    try:
        INJ.op("open")
        f = _REAL_OPEN(*a, **k)
    except BaseException:
        INJ.events.append(("X", site))
        raise
    INJ.events.append(("O", site))
    p = FileProxy(f, "lasio", site)
    INJ.owned.append(p)
    return p


class patched_open(object):
    def __enter__(self):
        builtins.open = _spy_open
        io.open = _spy_open
        return self

    def __exit__(self, *exc):
        builtins.open = _REAL_OPEN
        io.open = _REAL_IO_OPEN
        return False


def caller_file(path, mode="w"):
    p = FileProxy(_REAL_OPEN(path, mode), "caller", ("harness", 0))
    INJ.caller.append(p)
    return p


# ---------------------------------------------------------------------------------------
# inputs (synthesised; small so that every k can be enumerated)
def las_text(rows=5, wrap=False, version="2.0", vers_line=True, curves=("DEPT", "DT", "RHOB"), extra=""):
    L = ["~Version Information"]
    if vers_line:
        L.append(" VERS.   %s : CWLS LOG ASCII STANDARD" % version)
    L.append(" WRAP.   %s : one line per depth step" % ("YES" if wrap else "NO"))
    L += ["~Well Information",
          " STRT.M   1.0 : start", " STOP.M   %.1f : stop" % float(rows), " STEP.M   1.0 : step",
          " NULL.   -999.25 : null", " WELL.   W1 : well" + extra,
          "~Curve Information"]
    for c in curves:
        L.append(" %s.M  : curve %s" % (c, c))
    L += ["~Parameter Information", " BHT .DEGC 35.5 : temp", "~Other", "a note", "~A"]
    for i in range(rows):
        vals = ["%.1f" % (i + 1)] + ["%.2f" % (10 * (j + 1) + i) for j in range(len(curves) - 1)]
        if wrap:
            L.append(vals[0])
            L.append(" ".join(vals[1:]))
        else:
            L.append(" ".join(vals))
    return "\n".join(L) + "\n"


def _write(path, data):
    if isinstance(data, str):
        data = data.encode("utf-8")
    with _REAL_OPEN(path, "wb") as f:
        f.write(data)


ROWS = {"n": 5, "big": 40}


def make_inputs(d):
    j = lambda n: os.path.join(d, n)
    _write(j("plain.las"), las_text(rows=ROWS["n"]))
    _write(j("wrapped.las"), las_text(rows=ROWS["n"], wrap=True))
    _write(j("bom.las"), b"\xef\xbb\xbf" + las_text().encode("utf-8"))
    _write(j("latin1.las"), las_text(extra=" café").encode("latin-1"))
    _write(j("utf8.las"), las_text(extra=" café Δ").encode("utf-8"))
    _write(j("nosections.las"), "this is not a las file\njust some text\nmore text\n")
    _write(j("hdrerror.las"), las_text().replace(" BHT .DEGC 35.5 : temp", " this line has no period or colon at all"))
    bad = las_text().rstrip("\n").rsplit("\n", 1)[0] + "\n5.0 50.00\n"      # last row one value short
    _write(j("reshape.las"), bad)
    _write(j("lidar.las"), b"LASF" + b"\x00\x01\x02\x03" * 40)
    _write(j("text_curve.las"), las_text().replace("14.00", "abc"))
    os.mkdir(j("adir"))
    return d


def las_object(kind="plain"):
    """a LASFile built without touching the (patched) open"""
    import lasio
    was = INJ.active
    INJ.active = False
    try:
        if kind == "plain":
            return lasio.read(las_text(), engine="normal")
        if kind == "big":
            return lasio.read(las_text(rows=ROWS["big"]), engine="normal")
        if kind == "header_only":
            t = las_text(rows=0)
            return lasio.read(t[: t.index("~A")] + "~A\n", engine="normal")
        if kind == "no_vers":
            l = lasio.read(las_text(), engine="normal")
            del l.version["VERS"]
            return l
        if kind == "empty":
            return lasio.LASFile()
        raise KeyError(kind)
    finally:
        INJ.active = was


# scenario table: name -> (call kind, function skeleton, builder).  A builder takes the temp dir
# and returns (las_or_None, thunk); the thunk performs exactly one lasio call.
def _rd(fname, as_path=False, **kw):
    def build(d):
        import lasio
        las = lasio.LASFile()
        p = os.path.join(d, fname)
        ref = pathlib.Path(p) if as_path else p
        return las, (lambda: las.read(ref, **kw))
    return build


def _wr(laskind, target="out.las", fobj=False, **kw):
    def build(d):
        las = las_object(laskind)
        p = os.path.join(d, target)
        if fobj:
            f = caller_file(p)
            return las, (lambda: las.write(f, **kw))
        return las, (lambda: las.write(p, **kw))
    return build


def _csv(laskind, target="out.csv", fobj=False, **kw):
    def build(d):
        las = las_object(laskind)
        p = os.path.join(d, target)
        if fobj:
            f = caller_file(p)
            return las, (lambda: las.to_csv(f, **kw))
        return las, (lambda: las.to_csv(p, **kw))
    return build


SCENARIOS = [
    # call kinds of the property, clean input: every k
    ("read(path str)", "read", "read_str", _rd("plain.las")),
    ("read(path str)", "read", "read_str_wrapped", _rd("wrapped.las")),
    ("read(path str)", "read", "read_str_normal_engine", _rd("plain.las", engine="normal")),
    ("read(path str)", "read", "read_str_encoding_given", _rd("utf8.las", encoding="utf-8")),
    ("read(path str)", "read", "read_str_no_autodetect", _rd("plain.las", autodetect_encoding=False)),
    ("read(path str)", "read", "read_str_no_autodetect_latin1", _rd("latin1.las", autodetect_encoding=False)),
    ("read(path str)", "read", "read_str_bom", _rd("bom.las")),
    ("read(path str)", "read", "read_str_all_chars", _rd("utf8.las", autodetect_encoding_chars=None)),
    ("read(path str)", "read", "read_str_ignore_data", _rd("plain.las", ignore_data=True)),
    ("read(path str)", "read", "read_str_text_curve", _rd("text_curve.las")),
    ("read(pathlib.Path)", "read", "read_path", _rd("plain.las", as_path=True)),
    ("read(pathlib.Path)", "read", "read_path_wrapped", _rd("wrapped.las", as_path=True)),
    ("write(path)", "write", "write_path", _wr("plain")),
    ("write(path)", "write", "write_path_v12", _wr("plain", version=1.2)),
    ("write(path)", "write", "write_path_wrap", _wr("plain", wrap=True)),
    ("write(path)", "write", "write_path_big", _wr("big")),
    ("to_csv(path)", "to_csv", "to_csv_path", _csv("plain")),
    ("to_csv(path)", "to_csv", "to_csv_path_brackets", _csv("plain", units_loc="[]")),
    ("to_csv(path)", "to_csv", "to_csv_path_big", _csv("big")),
    # caller-supplied file objects must stay open
    ("write(file object)", "write", "write_fobj", _wr("big", fobj=True)),
    ("to_csv(file object)", "to_csv", "to_csv_fobj", _csv("big", fobj=True)),
    ("write(file object)", "write", "write_fobj_bad_version", _wr("plain", fobj=True, version=3)),
    ("to_csv(file object)", "to_csv", "to_csv_fobj_bad_kwarg", _csv("plain", fobj=True, bogus=1)),
    # input-induced failure classes (each also with every k)
    ("read: no ~ sections", "read", "fail_no_sections", _rd("nosections.las")),
    ("read: header error", "read", "fail_header_error", _rd("hdrerror.las")),
    ("read: data reshape error", "read", "fail_reshape", _rd("reshape.las", engine="normal")),
    ("read: decode error (strict)", "read", "fail_decode_strict",
     _rd("latin1.las", encoding="ascii", encoding_errors="strict")),
    ("read: decode error (strict)", "read", "fail_decode_strict_utf8",
     _rd("latin1.las", encoding="utf-8", encoding_errors="strict", engine="normal")),
    ("read: LASF lidar file", "read", "fail_lidar", _rd("lidar.las")),
    ("read: missing file", "read", "fail_missing_file", _rd("does_not_exist.las")),
    ("write: missing VERS", "write", "fail_write_missing_vers", _wr("no_vers")),
    ("write: bad version=", "write", "fail_write_bad_version", _wr("plain", version=3)),
    ("write: header-only file", "write", "fail_write_header_only", _wr("header_only")),
    ("write: unwritable path", "write", "fail_write_directory", _wr("plain", target="adir")),
    ("to_csv: bad csv kwarg", "to_csv", "fail_to_csv_bad_kwarg", _csv("plain", bogus=1)),
    ("to_csv(path)", "to_csv", "to_csv_no_curves", _csv("empty")),
    ("to_csv(path)", "to_csv", "to_csv_header_only", _csv("header_only")),
]
# used by search() only (after a proof/tie broke)
EXTRA_SCENARIOS = [
    ("read(path str)", "read", "x_read_null_policy", _rd("plain.las", null_policy="all")),
    ("read(path str)", "read", "x_read_dtypes", _rd("plain.las", dtypes={"DT": str})),
    ("read(path str)", "read", "x_read_ignore_header_errors", _rd("hdrerror.las", ignore_header_errors=True)),
    ("write(path)", "write", "x_write_fmt", _wr("plain", fmt="%.3f", len_numeric_field=12)),
    ("to_csv(path)", "to_csv", "x_to_csv_nounits", _csv("plain", units=False, mnemonics=False)),
]
SC_BY_NAME = {s[2]: s for s in SCENARIOS + EXTRA_SCENARIOS}


# ---------------------------------------------------------------------------------------
def reachable_open_handles(root, limit=200000):
    """open FileProxy objects reachable from root (the LASFile object)"""
    seen = set()
    todo = [root]
    found = []
    skip = (types.ModuleType, types.FunctionType, types.BuiltinFunctionType, type, types.MethodType,
            types.CodeType, types.FrameType, str, bytes, int, float, complex, bool, type(None))
    while todo and len(seen) < limit:
        o = todo.pop()
        if id(o) in seen:
            continue
        seen.add(id(o))
        if isinstance(o, FileProxy):
            if o._is_open():
                found.append(o)
            continue
        if isinstance(o, skip):
            continue
        try:
            refs = gc.get_referents(o)
        except Exception:
            continue
        for r in refs:
            if id(r) not in seen and not isinstance(r, skip):
                todo.append(r)
    return found


class Outcome:
    pass


def run_one(d, name, k):
    """one execution of scenario `name` with the fault at operation k (k=0: no fault)"""
    _, fn, _, builder = SC_BY_NAME[name]
    out = Outcome()
    INJ.reset(k if k else None)
    INJ.active = False
    for stale in ("out.las", "out.csv"):
        try:
            os.remove(os.path.join(d, stale))
        except OSError:
            pass
    las, thunk = builder(d)
    exc = None
    with patched_open():
        INJ.active = True
        try:
            thunk()
        except BaseException as e:      # kept alive (with its traceback and frames) while we inspect
            if isinstance(e, (KeyboardInterrupt, SystemExit)):
                INJ.active = False
                raise
            exc = e
        finally:
            INJ.active = False
    out.ops = INJ.ops
    out.fired = INJ.fired
    out.exc = type(exc).__name__ if exc is not None else None
    out.exc_text = (str(exc)[:120] if exc is not None else "")
    out.leaked = [p for p in INJ.owned if p._is_open()]
    out.caller_closed = [p for p in INJ.caller if not p._is_open()]
    out.held = reachable_open_handles(las) if las is not None else []
    out.events = list(INJ.events)
    out.sites = sorted({p._site for p in INJ.owned} | {e[1] for e in INJ.events if e[1] != "caller"})
    out.leaked_sites = sorted({p._site for p in out.leaked})
    out.problems = []
    if out.leaked:
        out.problems.append("handle(s) opened by lasio still open after the call %s: %s" % (
            "raised " + out.exc if out.exc else "returned",
            ", ".join("%s:%d" % s for s in out.leaked_sites)))
    if out.caller_closed:
        out.problems.append("file object supplied by the caller was closed by lasio")
    if out.held:
        out.problems.append("the LASFile object still holds an open handle: %r" % (out.held[0],))
    # tidy up: close whatever is still open (real files), drop the exception
    for p in INJ.owned + INJ.caller:
        try:
            p._f.close()
        except Exception:
            pass
    del exc
    return out


def describe(name, k, o):
    kind = SC_BY_NAME[name][0]
    return "%s [%s] fault at operation %s%s -> %s; %s" % (
        kind, name, k if k else "none", (" (%s)" % o.fired) if o.fired else "",
        ("raised %s" % o.exc) if o.exc else "returned", "; ".join(o.problems) or "all handles closed")


# ---------------------------------------------------------------------------------------
RUN_DEF = """
Require Import IOSkel IOSkelTrace Skel.
Open Scope N_scope.
Definition skel_of (s : list N) : option (stmt * list nat) :=
  if str_eqb s (s2l "read") then Some (skel_read, rets_read)
  else if str_eqb s (s2l "write") then Some (skel_write, rets_write)
  else if str_eqb s (s2l "to_csv") then Some (skel_to_csv, rets_to_csv)
  else if str_eqb s (s2l "adhoc") then Some (skel_adhoc, rets_adhoc)
  else if str_eqb s (s2l "open_with_codecs") then Some (skel_open_with_codecs, rets_open_with_codecs)
  else if str_eqb s (s2l "open_file") then Some (skel_open_file, rets_open_file)
  else None.
Definition nat_of_str (s : list N) : nat := N.to_nat (fold_left (fun a c => 10 * a + (c - 48)) s 0).
Definition hids (s : list N) : list nat :=
  map nat_of_str (filter (fun x => negb (str_eqb x [])) (split_char 44 s)).
Fixpoint nat_list_str (l : list nat) : list N :=
  match l with
  | [] => []
  | [a] => N_to_str (N.of_nat a)
  | a :: t => N_to_str (N.of_nat a) ++ 44 :: nat_list_str t
  end.
Fixpoint site_lookup (k : list N) (t : list (String.string * nat)) : list N :=
  match t with
  | [] => [63]
  | (a, h) :: t' => if str_eqb (s2l a) k then N_to_str (N.of_nat h) else site_lookup k t'
  end.
Definition ev_of (s : list N) : list ev :=
  match s with
  | 79 :: d => [EOpen (nat_of_str d)]
  | 88 :: d => [EOpenFail (nat_of_str d)]
  | 67 :: d => [EClose (nat_of_str d)]
  | _ => []
  end.
Definition evs (s : list N) : list ev := flat_map ev_of (split_char 44 s).
(* queries:  leak_free|fn   untouched|fn   predicts|fn|exit|h,h,..   trace|fn|exit|O1,C1,..
             site|file:line   others| *)
Definition run (i : list N) : list N :=
  match fields i with
  | q :: f :: rest =>
      if str_eqb q (s2l "site") then site_lookup f open_sites
      else if str_eqb q (s2l "others") then N_to_str (N.of_nat (List.length other_open_sites))
      else match skel_of f with
      | None => [63]
      | Some (sk, rets) =>
          if str_eqb q (s2l "leak_free") then bool_to_str (leak_free_ret rets sk)
          else if str_eqb q (s2l "untouched") then bool_to_str (caller_handles_untouched sk)
          else if str_eqb q (s2l "trace") then
            match rest with
            | e :: l :: _ =>
                let raised := str_eqb e (s2l "raise") in
                bool_to_str (accepts sk (evs l) raised) ++ bool_to_str (accepted_runs_clean sk (evs l) raised)
            | _ => [63]
            end
          else if str_eqb q (s2l "predicts") then
            match rest, an sk [] with
            | e :: l :: _, Some r =>
                let ex := if str_eqb e (s2l "raise") then rR r else oj (rN r) (rT r) in
                bool_to_str (subl (hids l) (show_exit ex))
            | _ :: _ :: _, None => [84]      (* analysis rejected the skeleton: nothing is excluded *)
            | _, _ => [63]
            end
          else [63]
      end
  | _ => [63]
  end.
"""


def enumerate_all(d, ctx, res, scenarios=None):
    """runs every (scenario, k); returns bookkeeping used by run() and search()"""
    import skeleton
    stats = {"per_kind": {}, "fired": set(), "cases": 0, "leaks": {}, "caller_closed": {}, "sites": set(),
             "exhaustive": True, "observed": set(), "unexpected": [], "traces": {}}
    for kind, fn, name, _ in (SCENARIOS if scenarios is None else scenarios):
        clean = run_one(d, name, 0)
        stats["cases"] += 1
        n = clean.ops
        rec = stats["per_kind"].setdefault(kind, {"scenarios": 0, "ops_clean": 0, "runs": 0, "fired": 0,
                                                  "raised": 0, "returned": 0})
        rec["scenarios"] += 1
        rec["ops_clean"] += n
        outcomes = [(0, clean)]
        for k in range(1, n + 1):
            o = run_one(d, name, k)
            stats["cases"] += 1
            outcomes.append((k, o))
        for k, o in outcomes:
            rec["runs"] += 1
            rec["raised" if o.exc else "returned"] += 1
            if o.fired:
                rec["fired"] += 1
                stats["fired"].add((name, k))
            elif k:
                # the run took a different path and finished before reaching operation k
                pass
            stats["sites"].update(o.sites)
            leaked_h = tuple(sorted(o.leaked_sites))
            stats["observed"].add((fn, "raise" if o.exc else "return", leaked_h))
            stats["traces"].setdefault((fn, "raise" if o.exc else "return", tuple(o.events), bool(o.leaked)), (name, k))
            if o.leaked:
                stats["leaks"].setdefault(fn, []).append((name, k))
            if o.caller_closed:
                stats["caller_closed"].setdefault(fn, []).append((name, k))
            if o.problems:
                res.oracle_violations.append({"payload": {"scenario": name, "k": k, "rows": [ROWS["n"], ROWS["big"]], "call_kind": kind,
                                                          "fault": ("OSError injected at low-level operation %d (%s)" % (k, o.fired)) if o.fired
                                                          else "no injected fault (input-induced failure only)",
                                                          "outcome": ("raised " + o.exc) if o.exc else "returned"},
                                              "what": describe(name, k, o)})
        if name.startswith("fail_") and not clean.exc:
            stats["unexpected"].append("%s returned normally" % name)
        if n and rec["scenarios"] == 1:          # one sample per call kind / failure class
            mid = outcomes[len(outcomes) // 2]
            res.samples.append(describe(name, mid[0], mid[1]))
    return stats


def run(ctx):
    import skeleton
    res = lib.Result()
    ROWS["n"], ROWS["big"] = (5, 40)
    # replays of repaired findings run first (corpus/C20_*.json): F14
    import glob
    for path in sorted(glob.glob(os.path.join(lib.VERIF, "corpus", "C20_*.json"))):
        payload = json.load(open(path))["payload"]
        bad, text = replay(payload)
        if bad:
            res.oracle_violations.append({"payload": payload, "what": "corpus %s: %s" % (os.path.basename(path), text)})
    ROWS["n"], ROWS["big"] = (60, 300) if ctx.thorough else (5, 40)
    with tempfile.TemporaryDirectory(prefix="c20_") as d:
        make_inputs(d)
        stats = enumerate_all(d, ctx, res)
    # ---- model side -------------------------------------------------------------------
    cases = []
    labels = []

    def add(q, exp, label):
        cases.append((q, exp))
        labels.append(label)

    try:
        site_table = skeleton.open_site_table(REPO)
        terr = None
    except Exception as e:           # translator failed: reported by the build as well
        site_table, terr = {}, repr(e)
    for fn in ("read", "write", "to_csv"):
        leaked = bool(stats["leaks"].get(fn))
        add(lib.fields("leak_free", fn), "F" if leaked else "T",
            "leak_free skel_%s vs observed (%s)" % (fn, "leak at %r" % (stats["leaks"][fn][:2],) if leaked else "no leak in any run"))
    for fn in ("write", "to_csv"):
        cc = bool(stats["caller_closed"].get(fn))
        add(lib.fields("untouched", fn), "F" if cc else "T", "caller_handles_untouched skel_%s vs observed" % fn)
    try:
        local_sites = skeleton.local_open_sites(REPO)
    except Exception:
        local_sites = {}
    all_leaked_sites = {s for (f, e, ls) in stats["observed"] for s in ls}
    chain = ["adhoc_test_encoding", "open_with_codecs", "open_file"]      # each calls the one before it
    for i, fn in enumerate(("adhoc", "open_with_codecs", "open_file")):
        # a helper (with the helpers it calls, inlined in its skeleton) leaks iff a file opened there
        # and not returned was seen open after a call; the file it returns is read()'s to close
        mine = set()
        for py in chain[: i + 1]:
            mine |= local_sites.get(py, set())
        bad = sorted(all_leaked_sites & mine)
        add(lib.fields("leak_free", fn), "F" if bad else "T",
            "leak_free skel_%s vs observed (%s)" % (fn, ("left open: %r" % bad) if bad else "its with-blocks always closed"))
    for (rel, line) in sorted(stats["sites"]):
        hid = site_table.get((rel, line))
        add(lib.fields("site", "%s:%d" % (rel, line)), "NOT-A-TRANSLATED-OPEN-SITE" if hid is None else str(hid),
            "observed open at %s:%d is a translated open site" % (rel, line))
    add(lib.fields("others", ""), "0", "no other open site in modules reachable from las.py")
    for (fn, ex, ls) in sorted(stats["observed"]):
        hs = []
        for s in ls:
            h = site_table.get(s)
            hs.append("999" if h is None else str(h))
        add(lib.fields("predicts", fn, ex, ",".join(hs)), "T",
            "analysis of skel_%s predicts the handles observed open at %s: {%s}" % (fn, ex, ",".join(hs)))
    try:
        var_hid = skeleton.variable_hids(REPO)
    except Exception:
        var_hid = {}
    for (fn, ex, evs, leaked), (name, k) in sorted(stats["traces"].items(), key=lambda kv: (kv[1], kv[0][1])):
        toks = []
        for kind_, site in evs:
            h = var_hid.get((fn, "file_ref")) if site == "caller" else site_table.get(site)
            toks.append("%s%s" % (kind_, 999 if h is None else h))
        add(lib.fields("trace", fn, ex, ",".join(toks)), "T" + ("F" if leaked else "T"),
            "skel_%s has a run with the events %s ending in %s, and that run ends %s (first seen: %s, k=%d)" % (
                fn, " ".join(toks) or "(none)", ex, "with a handle open" if leaked else "owning nothing open", name, k))
    if ctx.build.model_ok:
        mism, err = lib.run_coq_cases("c20", [], RUN_DEF, cases)
        res.corr_error = err
        for i in mism:
            res.mismatches.append({"case": cases[i][0].replace(lib.FS, "|"), "expected": cases[i][1], "what": labels[i]})
    else:
        res.corr_error = "model not built" + (" (translator: %s)" % terr if terr else "")
    res.cases = stats["cases"]
    res.distinct_nontrivial = len(stats["fired"])
    res.rule = ("every scenario (call kind x input/failure class) is executed once cleanly and once per k = 1..N with an "
                "OSError injected at the k-th low-level operation (open/read/readline/__next__/seek/tell/write/flush/close) "
                "of the files involved, N = operation count of the clean run; non-trivial = distinct (scenario, k) pairs in "
                "which the injected fault actually fired")
    res.histogram = {k: v for k, v in stats["per_kind"].items()}
    res.histogram["model_side_cases"] = len(cases)
    res.histogram["distinct_event_traces_checked_against_skeletons"] = len(stats["traces"])
    if stats["unexpected"]:
        res.histogram["failure_class_not_reproduced"] = stats["unexpected"]
    res.extra = {"exhaustive": bool(stats["exhaustive"]),
                 "scenarios": len(SCENARIOS),
                 "observed_open_sites": ["%s:%d" % s for s in sorted(stats["sites"])]}
    return res


def replay(payload):
    name, k = payload["scenario"], int(payload["k"])
    if name not in SC_BY_NAME:
        return True, "unknown scenario %r" % name
    ROWS["n"], ROWS["big"] = payload.get("rows", [5, 40])
    with tempfile.TemporaryDirectory(prefix="c20_") as d:
        make_inputs(d)
        o = run_one(d, name, k)
        text = describe(name, k, o)
    return bool(o.problems), text


def search(ctx, res):
    """after a broken proof/tie: the enumeration in run() is already exhaustive in k for the scenario table; widen
    it with bigger inputs (more operations) and the remaining keyword combinations"""
    r2 = lib.Result()
    with tempfile.TemporaryDirectory(prefix="c20_") as d:
        make_inputs(d)
        enumerate_all(d, ctx, r2, scenarios=EXTRA_SCENARIOS)
    for v in r2.oracle_violations:
        yield v
