"""C20 — every file lasio opens is closed again, whatever fails and wherever.

Tie = dynamic fault enumeration on the implementation.  `builtins.open` / `io.open` / `io.FileIO`
are wrapped (in this process only, and only while a scenario runs): every file lasio opens is a
proxy that records open/closed state, counts the low-level operations (open, read, readline,
__next__, seek, tell, write, flush, close, ...) and raises OSError at the k-th of them, for
EVERY k up to the operation count of the clean run, for each call kind and each input-induced
failure class.  An open is lasio's when the nearest frame that is not a standard-library wrapper
(codecs, pathlib, os.fdopen, gzip, zipfile, tempfile, ...) is a lasio source line: the name lasio
reached the opener by does not matter.  Independently of the wrappers, an audit hook ("open" event:
every OS-level open, whatever API) records the opens lasio makes without going through a wrapped
constructor, and the process' descriptor table (/proc/self/fd) is compared before and after every
call.  After every call — returned or raised, the exception object kept alive —

  oracle 1: no handle opened by lasio is still open (proxies), and no descriptor that appeared during
            the call and points at a scenario file / a path lasio opened is still there;
  oracle 2: file objects supplied by the caller to write()/to_csv() are still open;
  oracle 3: nothing reachable from the LASFile object (for lasio.read / LASFile(path): the returned
            object, or the one under construction found in the traceback) is an open handle.

An open the audit hook attributes to lasio that did not come through a wrapped constructor cannot be
fault-injected: it is reported as a broken tie (mismatch), never ignored.

Model side (evaluated inside Coq on the regenerated skeletons, Gen/Skel.v):
  * `leak_free` / `caller_handles_untouched` of each skeleton vs what was observed for the
    corresponding call kind (expected "T" when no run of that kind leaked / closed a caller file);
  * for every observed (function, exit kind, set of handles left open): the analysis' set of
    possibly-open handles at that exit contains it (the model predicts every leak it is shown);
  * for every distinct observed (function, sequence of open/open-failed/close events, returned|raised):
    the skeleton has a run with exactly these events and that outcome (`accepts`, an executable
    acceptor proved sound in Proofs/IOSkelTraceProofs.v) — what the implementation was seen to do is
    among the behaviours the theorems quantify over;
  * every open observed at run time (wrapped or seen by the audit hook only) happened at a source line the
    translator turned into an `Open`/`With` (Skel.open_sites), and no source file of the lasio package calls
    an opener outside the translated functions (Skel.other_open_sites = []).
"""
import _io
import builtins
import errno
import gc
import io
import json
import os
import pathlib
import sys
import tempfile
import types

import lib

sys.path.insert(0, os.path.join(lib.VERIF, "translators"))

PROP = "C20"
MODEL_TARGETS = ["Model/IOSkel.vo", "Model/IOSkelTrace.vo", "Gen/Skel.vo"]
THEOREMS = ["C20_sound", "C20_sound_general", "C20_ret_sound", "C20_caller_untouched_sound",
            "C20_trace_acceptor_sound", "C20_xexec_is_exec", "C20_accepted_is_clean",
            "C20_read", "C20_write", "C20_to_csv", "C20_adhoc", "C20_open_with_codecs", "C20_open_file",
            "C20_read_exec", "C20_write_exec", "C20_to_csv_exec",
            "C20_caller_untouched_write", "C20_caller_untouched_to_csv", "C20_no_other_open_sites",
            "C20_api_returns_nothing", "C20_caller_untouched_write_exec", "C20_caller_untouched_to_csv_exec",
            "C20_convert_version", "C20_convert_version_exec"]
ASSUMPTIONS = [
    "translator completeness: every statement of the translated functions that can raise is rendered as MayRaise/Open/Close "
    "(all statements other than assignments of names/constants are); NameError/MemoryError/KeyboardInterrupt between two "
    "pure statements are not modelled",
    "close() closes: a file object's close() leaves it closed even when close() itself raises (true of CPython io objects)",
    "openers are recognised by NAME (translators/skeleton.py OPENERS: open, io.open, x.open, FileIO, fdopen, TextIOWrapper, "
    "Buffered*, *TemporaryFile, mkstemp, GzipFile/BZ2File/LZMAFile/ZipFile/TarFile, popen/Popen, pipe/dup/socket/mmap ...), in "
    "every source file of the lasio package (Skel.other_open_sites = [] scans lasio/**/*.py, aliases `f = open`, "
    "`from io import open as f`, getattr(io, \"open\") included).  A variable that is closed / used as the handle and is "
    "bound from anything the translator cannot classify as not-a-handle (constant, untracked name with only such bindings, "
    "StringIO/BytesIO, a lasio function that calls nothing but isinstance/str/absolute) makes the translation fail "
    "(SkelError).  What remains assumed: a callee that is neither a lasio function nor on the denylist opens no file whose "
    "handle it leaves to lasio in a variable that is never closed; dynamically this is covered by the audit hook and the "
    "descriptor table for the scenarios that are run",
    "functions called from the translated ones are either translated themselves and proved leak-free (lasio.read -> "
    "LASFile.__init__ -> LASFile.read; convert_version -> lasio.read, LASFile.write) or open no files (writer.write, "
    "csv.writer, reader.* parsers, numpy): checked syntactically for EVERY module of the package and dynamically (every "
    "observed open comes from a translated open site)",
    "the guards `isinstance(file_ref, str)`, `if opened_file:` and `hasattr(x, \"close\")` behave as the translator's "
    "idiom table says: `Guarded x b` may skip b only in states where x holds no open file lasio opened; for the flag "
    "idiom this is checked syntactically (flag = False only at the top of the function before any open; flag = True only "
    "immediately after the open, or immediately before it and then not inside a try body; every open of the guarded "
    "variable has its flag = True; the flag is read only as the test of `if flag: x.close()`; no nonlocal/global, no "
    "nested definition touching open/close); for hasattr(x, \"close\") it rests on every file object having a close "
    "attribute",
    "a helper's returned handle becomes the caller's at the Call node: sound because the translator requires the "
    "unpacking target to have exactly the arity of the helper's return tuple and only plain names before the handle's "
    "position (nothing can raise between the helper's `return` and the store into the caller's variable)",
    "read() closes a file object handed to it (C20_ex_read_closes_caller_object): oracle 2 applies to write()/to_csv() only, "
    "as in the property's wording",
    "handles opened by libraries on lasio's behalf (urllib.urlopen, openpyxl) are outside the property's wording",
]
TRUSTED_EXTRA = ["translators/skeleton.py (Python ast -> IOSkel IR, fail-closed)",
                 "the open()/io.FileIO proxies, the audit hook and the /proc/self/fd comparison of harness/props/c20.py "
                 "(fault injection and open/closed bookkeeping)"]

REPO = lib.REPO
LASIO_DIR = os.path.join(os.path.realpath(REPO), "lasio") + os.sep

COUNTED = ("read", "readline", "readlines", "seek", "tell", "write", "writelines", "flush", "truncate",
           "read1", "readinto", "peek")


# ---------------------------------------------------------------------------------------
class Injector:
    def __init__(self):
        self.active = False
        self.reset(None)

    def reset(self, fault_at):
        self.ops = 0
        self.fault_at = fault_at
        self.fired = None          # name of the operation the fault was raised at
        self.owned = []            # proxies for files lasio opened
        self.caller = []           # proxies for files the caller supplied
        self.events = []           # ("O"|"X"|"C", site or "caller"): open ok / open raised / close called
        self.in_spy = 0            # >0 while one of the instrumented constructors performs the real open
        self.raw_opens = []        # (site, path) of OS-level opens made by lasio code NOT through an instrumented
                                   # constructor (seen by the audit hook only: no proxy, no fault injection)

    def tick(self, name):
        """count one low-level operation; True if the fault is due at it"""
        self.ops += 1
        if self.fault_at is not None and self.ops == self.fault_at:
            self.fired = name
            return True
        return False

    def op(self, name):
        if self.tick(name):
            raise OSError(errno.EIO, "injected fault at low-level operation %d (%s)" % (self.ops, name))


INJ = Injector()
_REAL_OPEN = builtins.open
_REAL_IO_OPEN = io.open
_REAL_FILEIO = io.FileIO


class FileProxy(object):
    """stands for one file object; delegates to the real one"""

    def __init__(self, f, owner, site):
        object.__setattr__(self, "_f", f)
        object.__setattr__(self, "_owner", owner)
        object.__setattr__(self, "_site", site)
        object.__setattr__(self, "_closed_by_call", False)

    # bookkeeping ------------------------------------------------------------------------
    @property
    def closed(self):
        return self._f.closed

    def _is_open(self):
        return not self._f.closed

    # counted operations -----------------------------------------------------------------
    def close(self):
        due = INJ.tick("close") if INJ.active else False
        if INJ.active:
            INJ.events.append(("C", self._site if self._owner == "lasio" else "caller"))
        self._f.close()                      # close() closes even when it then reports an error
        object.__setattr__(self, "_closed_by_call", True)
        if due:
            raise OSError(errno.EIO, "injected fault at low-level operation %d (close)" % INJ.ops)

    def __enter__(self):
        return self

    def __exit__(self, *exc):
        self.close()
        return False

    def __iter__(self):
        return self

    def __next__(self):
        if INJ.active:
            INJ.op("__next__")
        return self._f.__next__()

    def __getattr__(self, name):
        a = getattr(self._f, name)
        if name in COUNTED and callable(a):
            def counted(*args, **kw):
                if INJ.active:
                    INJ.op(name)
                return a(*args, **kw)
            return counted
        return a

    def __setattr__(self, name, value):
        setattr(self._f, name, value)

    def __repr__(self):
        return "<FileProxy %s %s opened at %s:%s %s>" % (
            self._owner, getattr(self._f, "name", "?"), self._site[0], self._site[1],
            "open" if self._is_open() else "closed")


_REAL_CACHE = {}


def _real(fn):
    r = _REAL_CACHE.get(fn)
    if r is None:
        r = _REAL_CACHE[fn] = os.path.realpath(fn)
    return r


def _site_of(frame):
    fn = _real(frame.f_code.co_filename)
    if fn.startswith(LASIO_DIR):
        return ("lasio/" + fn[len(LASIO_DIR):], frame.f_lineno)
    return None


# Standard-library wrappers that open a file ON BEHALF of their caller: an open performed inside one of them is
# attributed to the nearest enclosing lasio frame (codecs.open, Path.open, os.fdopen, gzip.open, zipfile.ZipFile,
# tempfile.NamedTemporaryFile, ... called from lasio code).  Anything else between the open and a lasio frame
# (importlib, linecache/traceback, logging, numpy, chardet, urllib, openpyxl, csv) is that library's own business.
_STDLIB_DIR = os.path.dirname(os.path.realpath(os.__file__))
_SEE_THROUGH_FILES = {"codecs.py", "pathlib.py", "gzip.py", "bz2.py", "lzma.py", "tarfile.py", "tempfile.py", "os.py",
                      "io.py", "_pyio.py", "shutil.py", "fileinput.py", "_compression.py", "contextlib.py"}
_SEE_THROUGH_FROZEN = {"<frozen codecs>", "<frozen os>", "<frozen io>"}
_SEE_THROUGH_PKGS = ("zipfile", "pathlib")


def _see_through(filename):
    if filename in _SEE_THROUGH_FROZEN:
        return True
    if filename.startswith("<"):
        return False
    fn = _real(filename)
    d, b = os.path.split(fn)
    if d == _STDLIB_DIR:
        return b in _SEE_THROUGH_FILES
    return any(d == os.path.join(_STDLIB_DIR, p) or d.startswith(os.path.join(_STDLIB_DIR, p) + os.sep)
               for p in _SEE_THROUGH_PKGS)


_THIS_FILE = os.path.realpath(__file__)


def _lasio_site(frame):
    """the lasio source line an open is attributed to: the nearest frame in a lasio file, looking through frames of
    this module and of the standard-library wrappers only; None = not lasio's open"""
    f = frame
    while f is not None:
        site = _site_of(f)
        if site is not None:
            return site
        fn = f.f_code.co_filename
        if not (_see_through(fn) or _real(fn) == _THIS_FILE):
            return None
        f = f.f_back
    return None


def _spy_open(*a, **k):
    if not INJ.active:
        return _REAL_OPEN(*a, **k)
    site = _lasio_site(sys._getframe(1))
    if site is None:
        return _REAL_OPEN(*a, **k)          # not opened by lasio (numpy, chardet, logging, ...)
    try:
        INJ.op("open")
        INJ.in_spy += 1
        try:
            f = _REAL_OPEN(*a, **k)
        finally:
            INJ.in_spy -= 1
    except BaseException:
        INJ.events.append(("X", site))
        raise
    INJ.events.append(("O", site))
    p = FileProxy(f, "lasio", site)
    INJ.owned.append(p)
    return p


class SpyFileIO(io.FileIO):
    """io.FileIO while a scenario runs: a real FileIO (isinstance keeps working) that, when constructed from lasio
    code, is tracked and fault-injected like the proxies of open()."""
    _owner = "lasio"

    def __init__(self, *a, **k):
        self._c20_site = None
        site = _lasio_site(sys._getframe(1)) if INJ.active else None
        if site is None:
            _REAL_FILEIO.__init__(self, *a, **k)
            return
        try:
            INJ.op("open")
            INJ.in_spy += 1
            try:
                _REAL_FILEIO.__init__(self, *a, **k)
            finally:
                INJ.in_spy -= 1
        except BaseException:
            INJ.events.append(("X", site))
            raise
        self._c20_site = site
        INJ.events.append(("O", site))
        INJ.owned.append(self)

    # the interface run_one() uses on the members of INJ.owned
    @property
    def _site(self):
        return self._c20_site

    @property
    def _f(self):
        return self

    def _is_open(self):
        return not self.closed

    def _c20_mine(self):
        return INJ.active and getattr(self, "_c20_site", None) is not None

    def close(self):
        due = False
        if self._c20_mine():
            due = INJ.tick("close")
            INJ.events.append(("C", self._c20_site))
        _REAL_FILEIO.close(self)
        if due:
            raise OSError(errno.EIO, "injected fault at low-level operation %d (close)" % INJ.ops)


def _counted_method(name):
    real = getattr(_REAL_FILEIO, name)

    def method(self, *a, **k):
        if self._c20_mine():
            INJ.op(name)
        return real(self, *a, **k)
    method.__name__ = name
    return method


for _n in ("read", "readall", "readinto", "write", "seek", "tell", "truncate"):
    setattr(SpyFileIO, _n, _counted_method(_n))


_HOOK = {"installed": False}


def _audit_hook(event, args):
    """every OS-level open (builtins.open, io.open, io.FileIO, os.open, os.fdopen, codecs.open, Path.open, tempfile,
    gzip, ...) raises the audit event "open" whatever the Python-level name it was reached by; the ones lasio code
    makes without going through an instrumented constructor are recorded"""
    if event != "open" or not INJ.active or INJ.in_spy:
        return
    try:
        site = _lasio_site(sys._getframe(1))
        if site is not None:
            INJ.raw_opens.append((site, args[0] if args else None))
    except Exception:
        pass


def _install_hook():
    if not _HOOK["installed"]:
        sys.addaudithook(_audit_hook)       # cannot be removed; inert unless INJ.active
        _HOOK["installed"] = True


def _fd_table():
    """{fd: target} of this process (None where /proc is not available)"""
    try:
        names = os.listdir("/proc/self/fd")
    except OSError:
        return None
    t = {}
    for n in names:
        try:
            t[int(n)] = os.readlink("/proc/self/fd/" + n)
        except (OSError, ValueError):
            pass                            # the descriptor used for the listing itself
    return t


class patched_open(object):
    def __enter__(self):
        _install_hook()
        builtins.open = _spy_open
        io.open = _io.open = _spy_open
        io.FileIO = _io.FileIO = SpyFileIO
        return self

    def __exit__(self, *exc):
        builtins.open = _REAL_OPEN
        io.open = _io.open = _REAL_IO_OPEN
        io.FileIO = _io.FileIO = _REAL_FILEIO
        return False


def caller_file(path, mode="w"):
    p = FileProxy(_REAL_OPEN(path, mode), "caller", ("harness", 0))
    INJ.caller.append(p)
    return p


# ---------------------------------------------------------------------------------------
# inputs (synthesised; small so that every k can be enumerated)
def las_text(rows=5, wrap=False, version="2.0", vers_line=True, curves=("DEPT", "DT", "RHOB"), extra=""):
    L = ["~Version Information"]
    if vers_line:
        L.append(" VERS.   %s : CWLS LOG ASCII STANDARD" % version)
    L.append(" WRAP.   %s : one line per depth step" % ("YES" if wrap else "NO"))
    L += ["~Well Information",
          " STRT.M   1.0 : start", " STOP.M   %.1f : stop" % float(rows), " STEP.M   1.0 : step",
          " NULL.   -999.25 : null", " WELL.   W1 : well" + extra,
          "~Curve Information"]
    for c in curves:
        L.append(" %s.M  : curve %s" % (c, c))
    L += ["~Parameter Information", " BHT .DEGC 35.5 : temp", "~Other", "a note", "~A"]
    for i in range(rows):
        vals = ["%.1f" % (i + 1)] + ["%.2f" % (10 * (j + 1) + i) for j in range(len(curves) - 1)]
        if wrap:
            L.append(vals[0])
            L.append(" ".join(vals[1:]))
        else:
            L.append(" ".join(vals))
    return "\n".join(L) + "\n"


def _write(path, data):
    if isinstance(data, str):
        data = data.encode("utf-8")
    with _REAL_OPEN(path, "wb") as f:
        f.write(data)


ROWS = {"n": 5, "big": 40}


def make_inputs(d):
    j = lambda n: os.path.join(d, n)
    _write(j("plain.las"), las_text(rows=ROWS["n"]))
    _write(j("wrapped.las"), las_text(rows=ROWS["n"], wrap=True))
    _write(j("bom.las"), b"\xef\xbb\xbf" + las_text().encode("utf-8"))
    _write(j("latin1.las"), las_text(extra=" café").encode("latin-1"))
    _write(j("utf8.las"), las_text(extra=" café Δ").encode("utf-8"))
    _write(j("nosections.las"), "this is not a las file\njust some text\nmore text\n")
    _write(j("hdrerror.las"), las_text().replace(" BHT .DEGC 35.5 : temp", " this line has no period or colon at all"))
    bad = las_text().rstrip("\n").rsplit("\n", 1)[0] + "\n5.0 50.00\n"      # last row one value short
    _write(j("reshape.las"), bad)
    _write(j("lidar.las"), b"LASF" + b"\x00\x01\x02\x03" * 40)
    _write(j("text_curve.las"), las_text().replace("14.00", "abc"))
    os.mkdir(j("adir"))
    return d


def las_object(kind="plain"):
    """a LASFile built without touching the (patched) open"""
    import lasio
    was = INJ.active
    INJ.active = False
    try:
        if kind == "plain":
            return lasio.read(las_text(), engine="normal")
        if kind == "big":
            return lasio.read(las_text(rows=ROWS["big"]), engine="normal")
        if kind == "header_only":
            t = las_text(rows=0)
            return lasio.read(t[: t.index("~A")] + "~A\n", engine="normal")
        if kind == "no_vers":
            l = lasio.read(las_text(), engine="normal")
            del l.version["VERS"]
            return l
        if kind == "empty":
            return lasio.LASFile()
        raise KeyError(kind)
    finally:
        INJ.active = was


# scenario table: name -> (call kind, function skeleton, builder).  A builder takes the temp dir
# and returns (las_or_None, thunk); the thunk performs exactly one lasio call.
def _rd(fname, as_path=False, fobj=False, **kw):
    def build(d):
        import lasio
        las = lasio.LASFile()
        p = os.path.join(d, fname)
        ref = caller_file(p, "r") if fobj else (pathlib.Path(p) if as_path else p)
        return las, (lambda: las.read(ref, **kw))
    return build


def _top(fname, how="read", as_path=False, fobj=False, **kw):
    """the package-level entry points: lasio.read(ref) and lasio.LASFile(ref) (las.read is reached through
    LASFile.__init__); the object under construction is found in the result or in the traceback"""
    def build(d):
        import lasio
        p = os.path.join(d, fname)
        if fobj:
            ref = caller_file(p, "r")
        else:
            ref = pathlib.Path(p) if as_path else p
        if how == "read":
            return None, (lambda: lasio.read(ref, **kw))
        return None, (lambda: lasio.LASFile(ref, **kw))
    return build


def _cv(fname, target="out.las", *flags):
    """the command-line converter lasio.convert_version.convert_version (the one open site of the package outside
    las.py / reader.py)"""
    def build(d):
        import lasio.convert_version as cv
        argv = ["convert_version"] + list(flags) + [os.path.join(d, fname), os.path.join(d, target)]

        def thunk():
            old = sys.argv
            sys.argv = argv
            try:
                return cv.convert_version()
            finally:
                sys.argv = old
        return None, thunk
    return build


def _wr(laskind, target="out.las", fobj=False, **kw):
    def build(d):
        las = las_object(laskind)
        p = os.path.join(d, target)
        if fobj:
            f = caller_file(p)
            return las, (lambda: las.write(f, **kw))
        return las, (lambda: las.write(p, **kw))
    return build


def _csv(laskind, target="out.csv", fobj=False, **kw):
    def build(d):
        las = las_object(laskind)
        p = os.path.join(d, target)
        if fobj:
            f = caller_file(p)
            return las, (lambda: las.to_csv(f, **kw))
        return las, (lambda: las.to_csv(p, **kw))
    return build


SCENARIOS = [
    # call kinds of the property, clean input: every k
    ("read(path str)", "read", "read_str", _rd("plain.las")),
    ("read(path str)", "read", "read_str_wrapped", _rd("wrapped.las")),
    ("read(path str)", "read", "read_str_normal_engine", _rd("plain.las", engine="normal")),
    ("read(path str)", "read", "read_str_encoding_given", _rd("utf8.las", encoding="utf-8")),
    ("read(path str)", "read", "read_str_no_autodetect", _rd("plain.las", autodetect_encoding=False)),
    ("read(path str)", "read", "read_str_no_autodetect_latin1", _rd("latin1.las", autodetect_encoding=False)),
    ("read(path str)", "read", "read_str_bom", _rd("bom.las")),
    ("read(path str)", "read", "read_str_all_chars", _rd("utf8.las", autodetect_encoding_chars=None)),
    ("read(path str)", "read", "read_str_ignore_data", _rd("plain.las", ignore_data=True)),
    ("read(path str)", "read", "read_str_text_curve", _rd("text_curve.las")),
    ("read(pathlib.Path)", "read", "read_path", _rd("plain.las", as_path=True)),
    ("read(pathlib.Path)", "read", "read_path_wrapped", _rd("wrapped.las", as_path=True)),
    # the same call kinds through the package-level entry points (lasio.read -> LASFile.__init__ -> LASFile.read)
    ("lasio.read(path str)", "read", "top_read_str", _top("plain.las")),
    ("lasio.read(pathlib.Path)", "read", "top_read_path", _top("plain.las", as_path=True)),
    ("lasio.LASFile(path str)", "read", "top_lasfile_str", _top("wrapped.las", how="LASFile")),
    ("lasio.read(file object)", "read", "top_read_fobj", _top("plain.las", fobj=True)),
    ("read(file object)", "read", "read_fobj", _rd("plain.las", fobj=True)),
    ("write(path)", "write", "write_path", _wr("plain")),
    ("write(path)", "write", "write_path_v12", _wr("plain", version=1.2)),
    ("write(path)", "write", "write_path_wrap", _wr("plain", wrap=True)),
    ("write(path)", "write", "write_path_big", _wr("big")),
    ("to_csv(path)", "to_csv", "to_csv_path", _csv("plain")),
    ("to_csv(path)", "to_csv", "to_csv_path_brackets", _csv("plain", units_loc="[]")),
    ("to_csv(path)", "to_csv", "to_csv_path_big", _csv("big")),
    # caller-supplied file objects must stay open
    ("write(file object)", "write", "write_fobj", _wr("big", fobj=True)),
    ("to_csv(file object)", "to_csv", "to_csv_fobj", _csv("big", fobj=True)),
    ("write(file object)", "write", "write_fobj_bad_version", _wr("plain", fobj=True, version=3)),
    ("to_csv(file object)", "to_csv", "to_csv_fobj_bad_kwarg", _csv("plain", fobj=True, bogus=1)),
    # input-induced failure classes (each also with every k)
    ("read: no ~ sections", "read", "fail_no_sections", _rd("nosections.las")),
    ("read: header error", "read", "fail_header_error", _rd("hdrerror.las")),
    ("read: data reshape error", "read", "fail_reshape", _rd("reshape.las", engine="normal")),
    ("read: decode error (strict)", "read", "fail_decode_strict",
     _rd("latin1.las", encoding="ascii", encoding_errors="strict")),
    ("read: decode error (strict)", "read", "fail_decode_strict_utf8",
     _rd("latin1.las", encoding="utf-8", encoding_errors="strict", engine="normal")),
    ("read: LASF lidar file", "read", "fail_lidar", _rd("lidar.las")),
    ("read: missing file", "read", "fail_missing_file", _rd("does_not_exist.las")),
    ("lasio.read: header error", "read", "fail_top_header_error", _top("hdrerror.las")),
    ("lasio.LASFile: no ~ sections", "read", "fail_top_lasfile_no_sections", _top("nosections.las", how="LASFile")),
    ("lasio.read: missing file", "read", "fail_top_missing_file", _top("does_not_exist.las")),
    ("write: missing VERS", "write", "fail_write_missing_vers", _wr("no_vers")),
    ("write: bad version=", "write", "fail_write_bad_version", _wr("plain", version=3)),
    ("write: header-only file", "write", "fail_write_header_only", _wr("header_only")),
    ("write: unwritable path", "write", "fail_write_directory", _wr("plain", target="adir")),
    ("to_csv: bad csv kwarg", "to_csv", "fail_to_csv_bad_kwarg", _csv("plain", bogus=1)),
    ("to_csv(path)", "to_csv", "to_csv_no_curves", _csv("empty")),
    ("to_csv(path)", "to_csv", "to_csv_header_only", _csv("header_only")),
    # the converter script: read(path) + open(output) + write(file object)
    ("convert_version(in, out)", "convert_version", "convert_version", _cv("plain.las")),
    ("convert_version: header error", "convert_version", "fail_convert_version_hdr", _cv("hdrerror.las")),
]
# used by search() only (after a proof/tie broke)
EXTRA_SCENARIOS = [
    ("read(path str)", "read", "x_read_null_policy", _rd("plain.las", null_policy="all")),
    ("read(path str)", "read", "x_read_dtypes", _rd("plain.las", dtypes={"DT": str})),
    ("read(path str)", "read", "x_read_ignore_header_errors", _rd("hdrerror.las", ignore_header_errors=True)),
    ("write(path)", "write", "x_write_fmt", _wr("plain", fmt="%.3f", len_numeric_field=12)),
    ("to_csv(path)", "to_csv", "x_to_csv_nounits", _csv("plain", units=False, mnemonics=False)),
    ("lasio.read(path str)", "read", "x_top_read_normal_engine", _top("plain.las", engine="normal")),
    ("lasio.read(path str)", "read", "x_top_read_latin1", _top("latin1.las", autodetect_encoding=False)),
    ("lasio.LASFile(pathlib.Path)", "read", "x_top_lasfile_path", _top("plain.las", how="LASFile", as_path=True)),
    ("convert_version(in, out)", "convert_version", "x_convert_version_wrapped", _cv("wrapped.las")),
]
SC_BY_NAME = {s[2]: s for s in SCENARIOS + EXTRA_SCENARIOS}
# skel_convert_version renders `lasio.read(..)` and `las.write(f, ..)` as MayRaise (calls of functions proved leak-free
# on their own): the events / handles of those calls are checked against skel_read / skel_write in their own
# scenarios, and only the events at convert_version's own open site are checked against skel_convert_version
OWN_FILE = {"convert_version": "lasio/convert_version.py"}


# ---------------------------------------------------------------------------------------
def reachable_open_handles(root, limit=200000):
    """open file objects (proxies, or real io objects) reachable from root (the LASFile object)"""
    seen = set()
    todo = [root]
    found = []
    skip = (types.ModuleType, types.FunctionType, types.BuiltinFunctionType, type, types.MethodType,
            types.CodeType, types.FrameType, str, bytes, int, float, complex, bool, type(None))
    while todo and len(seen) < limit:
        o = todo.pop()
        if id(o) in seen:
            continue
        seen.add(id(o))
        if isinstance(o, (FileProxy, SpyFileIO)):
            if o._is_open():
                found.append(o)
            continue
        if isinstance(o, io.IOBase):
            # a real OS-level file object that is not one of the proxies (opened through an API that is not instrumented)
            try:
                if not o.closed and o.fileno() > 2:
                    found.append(o)
            except Exception:
                pass
            continue
        if isinstance(o, skip):
            continue
        try:
            refs = gc.get_referents(o)
        except Exception:
            continue
        for r in refs:
            if id(r) not in seen and not isinstance(r, skip):
                todo.append(r)
    return found


class Outcome:
    pass


def _las_objects_of(exc):
    """LASFile objects that are `self` in a frame of the exception's traceback (lasio.read(..) / LASFile(..) raised:
    the object under construction is not returned, but whoever holds the exception still reaches it)"""
    import lasio
    out = []
    seen = set()
    e = exc
    while e is not None and id(e) not in seen:
        seen.add(id(e))
        tb = e.__traceback__
        while tb is not None:
            o = tb.tb_frame.f_locals.get("self")
            if isinstance(o, lasio.LASFile) and all(o is not x for x in out):
                out.append(o)
            tb = tb.tb_next
        e = e.__cause__ or e.__context__
    return out


def run_one(d, name, k):
    """one execution of scenario `name` with the fault at operation k (k=0: no fault)"""
    kind, fn, _, builder = SC_BY_NAME[name]
    out = Outcome()
    INJ.reset(k if k else None)
    INJ.active = False
    for stale in ("out.las", "out.csv"):
        try:
            os.remove(os.path.join(d, stale))
        except OSError:
            pass
    las, thunk = builder(d)
    exc = None
    ret = None
    fds_before = _fd_table()
    with patched_open():
        INJ.active = True
        try:
            ret = thunk()
        except BaseException as e:      # kept alive (with its traceback and frames) while we inspect
            if isinstance(e, (KeyboardInterrupt, SystemExit)):
                INJ.active = False
                raise
            exc = e
        finally:
            INJ.active = False
    fds_after = _fd_table()
    out.ops = INJ.ops
    out.fired = INJ.fired
    out.exc = type(exc).__name__ if exc is not None else None
    out.exc_text = (str(exc)[:120] if exc is not None else "")
    out.leaked = [p for p in INJ.owned if p._is_open()]
    out.caller_closed = [p for p in INJ.caller if not p._is_open()]
    roots = [las] if las is not None else []
    if las is None:
        import lasio
        if isinstance(ret, lasio.LASFile):
            roots.append(ret)
        if exc is not None:
            roots.extend(_las_objects_of(exc))
    out.held = [h for r in roots for h in reachable_open_handles(r)]
    out.events = list(INJ.events)
    out.raw_opens = list(INJ.raw_opens)
    # descriptors that appeared during the call and are still there, whatever API opened them: the ones that are not
    # the descriptor of a tracked proxy and that point into the scenario directory or at a path lasio code opened
    out.raw_leaked = []
    if fds_before is not None and fds_after is not None:
        known = set()
        for p_ in INJ.owned + INJ.caller:
            try:
                known.add(p_._f.fileno())
            except Exception:
                pass
        rd = os.path.realpath(d) + os.sep
        raw_paths = set()
        for _, pth in out.raw_opens:
            try:
                raw_paths.add(os.path.realpath(os.fspath(pth)))
            except Exception:
                pass
        for fd, target in sorted(fds_after.items()):
            if fds_before.get(fd) == target or fd in known:
                continue
            t = target[:-10] if target.endswith(" (deleted)") else target
            if t.startswith(rd) or t in raw_paths:
                out.raw_leaked.append((fd, target))
    out.sites = sorted({p._site for p in INJ.owned} | {e[1] for e in INJ.events if e[1] != "caller"}
                       | {s_ for s_, _ in out.raw_opens})
    out.leaked_sites = sorted({p._site for p in out.leaked})
    out.problems = []
    if out.leaked:
        out.problems.append("handle(s) opened by lasio still open after the call %s: %s" % (
            "raised " + out.exc if out.exc else "returned",
            ", ".join("%s:%d" % s for s in out.leaked_sites)))
    if out.raw_leaked:
        out.problems.append("file descriptor(s) opened during the call are still open after it %s: %s%s" % (
            "raised " + out.exc if out.exc else "returned",
            ", ".join("fd %d -> %s" % x for x in out.raw_leaked),
            (" (lasio opened, not through open()/io.open()/io.FileIO: %s)" % ", ".join(
                "%s:%d" % s_ for s_ in sorted({s_ for s_, _ in out.raw_opens}))) if out.raw_opens else ""))
    # the property leaves caller-supplied file objects open for write()/to_csv(); read() is documented to close the
    # file object it is given (Props/C20.v C20_ex_read_closes_caller_object)
    if out.caller_closed and fn in ("write", "to_csv"):
        out.problems.append("file object supplied by the caller was closed by lasio")
    if out.held:
        out.problems.append("the LASFile object still holds an open handle: %r" % (out.held[0],))
    # tidy up: close whatever is still open (real files), drop the exception
    for p in INJ.owned + INJ.caller:
        try:
            p._f.close()
        except Exception:
            pass
    del exc, ret, roots
    if out.raw_opens or out.raw_leaked:
        gc.collect()                    # unreferenced real file objects close themselves before the next run's snapshot
    return out


def describe(name, k, o):
    kind = SC_BY_NAME[name][0]
    return "%s [%s] fault at operation %s%s -> %s; %s" % (
        kind, name, k if k else "none", (" (%s)" % o.fired) if o.fired else "",
        ("raised %s" % o.exc) if o.exc else "returned", "; ".join(o.problems) or "all handles closed")


# ---------------------------------------------------------------------------------------
RUN_DEF = """
Require Import IOSkel IOSkelTrace Skel.
Open Scope N_scope.
Definition skel_of (s : list N) : option (stmt * list nat) :=
  if str_eqb s (s2l "read") then Some (skel_read, rets_read)
  else if str_eqb s (s2l "write") then Some (skel_write, rets_write)
  else if str_eqb s (s2l "to_csv") then Some (skel_to_csv, rets_to_csv)
  else if str_eqb s (s2l "adhoc") then Some (skel_adhoc, rets_adhoc)
  else if str_eqb s (s2l "open_with_codecs") then Some (skel_open_with_codecs, rets_open_with_codecs)
  else if str_eqb s (s2l "open_file") then Some (skel_open_file, rets_open_file)
  else if str_eqb s (s2l "convert_version") then Some (skel_convert_version, rets_convert_version)
  else None.
Definition nat_of_str (s : list N) : nat := N.to_nat (fold_left (fun a c => 10 * a + (c - 48)) s 0).
Definition hids (s : list N) : list nat :=
  map nat_of_str (filter (fun x => negb (str_eqb x [])) (split_char 44 s)).
Fixpoint nat_list_str (l : list nat) : list N :=
  match l with
  | [] => []
  | [a] => N_to_str (N.of_nat a)
  | a :: t => N_to_str (N.of_nat a) ++ 44 :: nat_list_str t
  end.
Fixpoint site_lookup (k : list N) (t : list (String.string * nat)) : list N :=
  match t with
  | [] => [63]
  | (a, h) :: t' => if str_eqb (s2l a) k then N_to_str (N.of_nat h) else site_lookup k t'
  end.
Definition ev_of (s : list N) : list ev :=
  match s with
  | 79 :: d => [EOpen (nat_of_str d)]
  | 88 :: d => [EOpenFail (nat_of_str d)]
  | 67 :: d => [EClose (nat_of_str d)]
  | _ => []
  end.
Definition evs (s : list N) : list ev := flat_map ev_of (split_char 44 s).
(* queries:  leak_free|fn   untouched|fn   predicts|fn|exit|h,h,..   trace|fn|exit|O1,C1,..
             site|file:line   others| *)
Definition run (i : list N) : list N :=
  match fields i with
  | q :: f :: rest =>
      if str_eqb q (s2l "site") then site_lookup f open_sites
      else if str_eqb q (s2l "others") then N_to_str (N.of_nat (List.length other_open_sites))
      else match skel_of f with
      | None => [63]
      | Some (sk, rets) =>
          if str_eqb q (s2l "leak_free") then bool_to_str (leak_free_ret rets sk)
          else if str_eqb q (s2l "untouched") then bool_to_str (caller_handles_untouched sk)
          else if str_eqb q (s2l "trace") then
            match rest with
            | e :: l :: _ =>
                let raised := str_eqb e (s2l "raise") in
                bool_to_str (accepts sk (evs l) raised) ++ bool_to_str (accepted_runs_clean sk (evs l) raised)
            | _ => [63]
            end
          else if str_eqb q (s2l "predicts") then
            match rest, an sk [] with
            | e :: l :: _, Some r =>
                let ex := if str_eqb e (s2l "raise") then rR r else oj (rN r) (rT r) in
                bool_to_str (subl (hids l) (show_exit ex))
            | _ :: _ :: _, None => [84]      (* analysis rejected the skeleton: nothing is excluded *)
            | _, _ => [63]
            end
          else [63]
      end
  | _ => [63]
  end.
"""


def enumerate_all(d, ctx, res, scenarios=None):
    """runs every (scenario, k); returns bookkeeping used by run() and search()"""
    import skeleton
    stats = {"per_kind": {}, "fired": set(), "cases": 0, "leaks": {}, "caller_closed": {}, "sites": set(),
             "exhaustive": True, "observed": set(), "unexpected": [], "traces": {}, "uninstrumented": {}}
    for kind, fn, name, _ in (SCENARIOS if scenarios is None else scenarios):
        clean = run_one(d, name, 0)
        stats["cases"] += 1
        n = clean.ops
        rec = stats["per_kind"].setdefault(kind, {"scenarios": 0, "ops_clean": 0, "runs": 0, "fired": 0,
                                                  "raised": 0, "returned": 0})
        rec["scenarios"] += 1
        rec["ops_clean"] += n
        outcomes = [(0, clean)]
        for k in range(1, n + 1):
            o = run_one(d, name, k)
            stats["cases"] += 1
            outcomes.append((k, o))
        for k, o in outcomes:
            rec["runs"] += 1
            rec["raised" if o.exc else "returned"] += 1
            if o.fired:
                rec["fired"] += 1
                stats["fired"].add((name, k))
            elif k:
                # the run took a different path and finished before reaching operation k
                pass
            stats["sites"].update(o.sites)
            for site, pth in o.raw_opens:
                stats["uninstrumented"].setdefault(site, (name, k, repr(pth)[:80]))
                stats["exhaustive"] = False
            # model side of a function whose skeleton renders calls of other API functions as MayRaise
            # (convert_version): only the handles of its own open sites are its skeleton's business; a leak inside
            # the lasio.read(..) it calls is an oracle violation here and a model-side case of the read scenarios
            mine = [s_ for s_ in o.leaked_sites if fn not in OWN_FILE or s_[0] == OWN_FILE[fn]]
            leaked_h = tuple(sorted(mine))
            stats["observed"].add((fn, "raise" if o.exc else "return", leaked_h))
            own_events = tuple(e for e in o.events
                               if fn not in OWN_FILE or (e[1] != "caller" and e[1][0] == OWN_FILE[fn]))
            stats["traces"].setdefault((fn, "raise" if o.exc else "return", own_events, bool(mine)), (name, k))
            if mine or (o.raw_leaked and fn not in OWN_FILE):
                stats["leaks"].setdefault(fn, []).append((name, k))
            if o.caller_closed:
                stats["caller_closed"].setdefault(fn, []).append((name, k))
            if o.problems:
                res.oracle_violations.append({"payload": {"scenario": name, "k": k, "rows": [ROWS["n"], ROWS["big"]], "call_kind": kind,
                                                          "fault": ("OSError injected at low-level operation %d (%s)" % (k, o.fired)) if o.fired
                                                          else "no injected fault (input-induced failure only)",
                                                          "outcome": ("raised " + o.exc) if o.exc else "returned"},
                                              "what": describe(name, k, o)})
        if name.startswith("fail_") and not clean.exc:
            stats["unexpected"].append("%s returned normally" % name)
        if n and rec["scenarios"] == 1:          # one sample per call kind / failure class
            mid = outcomes[len(outcomes) // 2]
            res.samples.append(describe(name, mid[0], mid[1]))
    return stats


def run(ctx):
    import skeleton
    res = lib.Result()
    ROWS["n"], ROWS["big"] = (5, 40)
    # replays of repaired findings run first (corpus/C20_*.json): F14
    import glob
    for path in sorted(glob.glob(os.path.join(lib.VERIF, "corpus", "C20_*.json"))):
        payload = json.load(open(path))["payload"]
        bad, text = replay(payload)
        if bad:
            res.oracle_violations.append({"payload": payload, "what": "corpus %s: %s" % (os.path.basename(path), text)})
    ROWS["n"], ROWS["big"] = (60, 300) if ctx.thorough else (5, 40)
    with tempfile.TemporaryDirectory(prefix="c20_") as d:
        make_inputs(d)
        stats = enumerate_all(d, ctx, res)
    # ---- model side -------------------------------------------------------------------
    cases = []
    labels = []

    def add(q, exp, label):
        cases.append((q, exp))
        labels.append(label)

    try:
        site_table = skeleton.open_site_table(REPO)
        terr = None
    except Exception as e:           # translator failed: reported by the build as well
        site_table, terr = {}, repr(e)
    for fn in ("read", "write", "to_csv", "convert_version"):
        leaked = bool(stats["leaks"].get(fn))
        add(lib.fields("leak_free", fn), "F" if leaked else "T",
            "leak_free skel_%s vs observed (%s)" % (fn, "leak at %r" % (stats["leaks"][fn][:2],) if leaked else "no leak in any run"))
    for fn in ("write", "to_csv"):
        cc = bool(stats["caller_closed"].get(fn))
        add(lib.fields("untouched", fn), "F" if cc else "T", "caller_handles_untouched skel_%s vs observed" % fn)
    try:
        local_sites = skeleton.local_open_sites(REPO)
    except Exception:
        local_sites = {}
    all_leaked_sites = {s for (f, e, ls) in stats["observed"] for s in ls}
    chain = ["adhoc_test_encoding", "open_with_codecs", "open_file"]      # each calls the one before it
    for i, fn in enumerate(("adhoc", "open_with_codecs", "open_file")):
        # a helper (with the helpers it calls, inlined in its skeleton) leaks iff a file opened there
        # and not returned was seen open after a call; the file it returns is read()'s to close
        mine = set()
        for py in chain[: i + 1]:
            mine |= local_sites.get(py, set())
        bad = sorted(all_leaked_sites & mine)
        add(lib.fields("leak_free", fn), "F" if bad else "T",
            "leak_free skel_%s vs observed (%s)" % (fn, ("left open: %r" % bad) if bad else "its with-blocks always closed"))
    for (rel, line) in sorted(stats["sites"]):
        hid = site_table.get((rel, line))
        add(lib.fields("site", "%s:%d" % (rel, line)), "NOT-A-TRANSLATED-OPEN-SITE" if hid is None else str(hid),
            "observed open at %s:%d is a translated open site" % (rel, line))
    add(lib.fields("others", ""), "0", "no opener call / opener alias anywhere in the lasio package outside the translated functions")
    for (fn, ex, ls) in sorted(stats["observed"]):
        hs = []
        for s in ls:
            h = site_table.get(s)
            hs.append("999" if h is None else str(h))
        add(lib.fields("predicts", fn, ex, ",".join(hs)), "T",
            "analysis of skel_%s predicts the handles observed open at %s: {%s}" % (fn, ex, ",".join(hs)))
    try:
        var_hid = skeleton.variable_hids(REPO)
    except Exception:
        var_hid = {}
    try:
        caller_hid = skeleton.caller_object_hids(REPO)
    except Exception:
        caller_hid = {}
    for (fn, ex, evs, leaked), (name, k) in sorted(stats["traces"].items(), key=lambda kv: (kv[1], kv[0][1])):
        toks = []
        for kind_, site in evs:
            h = caller_hid.get(fn, var_hid.get((fn, "file_ref"))) if site == "caller" else site_table.get(site)
            toks.append("%s%s" % (kind_, 999 if h is None else h))
        add(lib.fields("trace", fn, ex, ",".join(toks)), "T" + ("F" if leaked else "T"),
            "skel_%s has a run with the events %s ending in %s, and that run ends %s (first seen: %s, k=%d)" % (
                fn, " ".join(toks) or "(none)", ex, "with a handle open" if leaked else "owning nothing open", name, k))
    if ctx.build.model_ok:
        mism, err = lib.run_coq_cases("c20", [], RUN_DEF, cases)
        res.corr_error = err
        for i in mism:
            res.mismatches.append({"case": cases[i][0].replace(lib.FS, "|"), "expected": cases[i][1], "what": labels[i]})
    else:
        res.corr_error = "model not built" + (" (translator: %s)" % terr if terr else "")
    # an OS-level open made by lasio code that did not go through an instrumented constructor: the audit hook saw it,
    # but there is no proxy — no fault can be injected into that handle's operations and only the descriptor table
    # says whether it was closed.  The enumeration is then not what `rule` claims: reported as a broken tie.
    for site, (name, k, pth) in sorted(stats["uninstrumented"].items()):
        res.mismatches.append({"case": "open at %s:%d (scenario %s, k=%d, %s)" % (site[0], site[1], name, k, pth),
                               "expected": "every file lasio opens is opened through builtins.open / io.open / io.FileIO "
                                           "(directly or inside codecs/pathlib/gzip/zipfile/os.fdopen), where faults are injected",
                               "what": "lasio opened a file through an API the fault injector does not instrument; "
                                       "the fault enumeration does not cover that handle"})
    res.cases = stats["cases"]
    res.distinct_nontrivial = len(stats["fired"])
    res.rule = ("every scenario (call kind x input/failure class) is executed once cleanly and once per k = 1..N with an "
                "OSError injected at the k-th low-level operation (open/read/readline/__next__/seek/tell/write/flush/close) "
                "of the files involved, N = operation count of the clean run; non-trivial = distinct (scenario, k) pairs in "
                "which the injected fault actually fired")
    res.histogram = {k: v for k, v in stats["per_kind"].items()}
    res.histogram["model_side_cases"] = len(cases)
    res.histogram["distinct_event_traces_checked_against_skeletons"] = len(stats["traces"])
    if stats["unexpected"]:
        res.histogram["failure_class_not_reproduced"] = stats["unexpected"]
    res.extra = {"exhaustive": bool(stats["exhaustive"]),
                 "scenarios": len(SCENARIOS),
                 "observed_open_sites": ["%s:%d" % s for s in sorted(stats["sites"])]}
    return res


def replay(payload):
    name, k = payload["scenario"], int(payload["k"])
    if name not in SC_BY_NAME:
        return True, "unknown scenario %r" % name
    ROWS["n"], ROWS["big"] = payload.get("rows", [5, 40])
    with tempfile.TemporaryDirectory(prefix="c20_") as d:
        make_inputs(d)
        o = run_one(d, name, k)
        text = describe(name, k, o)
    return bool(o.problems), text


def search(ctx, res):
    """after a broken proof/tie: the enumeration in run() is already exhaustive in k for the scenario table; widen
    it with bigger inputs (more operations) and the remaining keyword combinations"""
    r2 = lib.Result()
    with tempfile.TemporaryDirectory(prefix="c20_") as d:
        make_inputs(d)
        enumerate_all(d, ctx, r2, scenarios=EXTRA_SCENARIOS)
    for v in r2.oracle_violations:
        yield v
