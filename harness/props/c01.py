"""C01 — numeric curve data survives write -> read within the printed precision."""
import math
import struct

import numpy as np

import lib
import lasgen
import readmodel as rm
import writemodel as wm

PROP = "C01"
MODEL_TARGETS = ["Corr/WriteShow.vo"]
THEOREMS = ["C01_padded_tokens", "C01_row_tokens", "C01_wrap_tokens", "C01_wrap_no_blank_line", "C01_wrap_fits", "C01_chunks", "C01_nan_is_null", "C01_nan_without_null", "C01_num_is_fmt", "C01_col_fmt", "C01_tok_matrix_nth", "C01_lines_defined", "C01_lines_tokens", "C01_wrapped_tokens", "C01_data_roundtrip_lines", "C01_clean_line_of_tokens", "C01_subs_local", "C01_nomatch_tokens", "C01_data_roundtrip", "C01_roundtrip_cell", "C01_write_data_lines", "C01_clean_is_dom2", "C01_file_roundtrip", "C01_file_roundtrip_checked", "C01_data_hyps_unfold", "C01_data_text_hyps_unfold", "C01_data_result_unfold", "C01_rows_width", "C01_file_data_core_unwrapped", "C01_file_data_core_wrapped", "C01_sniffed_count_bounded", "C01_file_data_shape", "C01_file_index_kept", "C01_file_cell_num", "C01_file_cell_nan",
            "C01_lnf_current", "C01_col_fmt_current", "C01_spacing_current", "C01_field_current", "C01_data_rows_current"]
ASSUMPTIONS = [
    "oracle: `fmt % x` prints x correctly rounded to the digits the format asks for, float(text) is the correctly rounded double; "
    "so the recovered sample float(fmt % x) is within half a unit of the last printed digit (plus the final binary rounding)",
    "a finite NON-INDEX sample whose printed text is numerically the NULL value is the null marker on disk (such a cell is "
    "re-drawn by the generator); INDEX samples that print as the NULL value are inside the domain and are generated on purpose",
    "textwrap.TextWrapper as modelled in PyLib/TextWrap.v (validated on every generated row)",
]

# ---- the theorem domains evaluated on the generated cases (audit D12) ------------------------------------------
# `run` answers, for a pipeline case R<ropts0> W<wopts> R<ropts>, with the model of the first read and of the write:
#   "F"  the written form satisfies file_hypsb (and the other premises of C01_file_roundtrip_checked: write = WOk,
#        write_sections, dsh_of, las_null_text, row texts defined, ignore_data off) for the options of the re-read,
#   "H"  not "F", but the premises of C03_file_roundtrip hold (header_hyps, text_hyps, written tokens numeric and clean,
#        blank spacers, data_text_hyps),
#   "o"  neither; "w": the model's write is not defined; "r": the model's first read fails.
# Inside "F"/"H" the theorem's conclusion is about the model's read of the written text; the correspondence of the same
# case compares that model run with lasio's output, so an in-domain case that passes the correspondence is a case where
# lasio did what the theorem predicts.
RUN_DOMAIN = """
Require Import Regex NumLit Num HeaderLine Tables SectionParse Sections DataRead Read TextWrap Writer
  ReadShow WriteShow WriteOptionsProofs WriteDataProofs WriteDataTextProofs FileRoundTripText FileRoundTripCheck.
Open Scope list_scope.
Open Scope N_scope.
Definition run (i : list N) : list N :=
  match fields i with
  | ops :: text :: rest =>
      let (t, ft) := split_at_mark rest [] in
      match split_char OPS ops with
      | (82 :: rcode0) :: (87 :: wcode) :: (82 :: rcode) :: _ =>
          let (ro0, _) := opt_of rcode0 in
          let (ro, _) := opt_of rcode in
          let o := wopts_of wcode in
          let fz k := match tab_hex t k with Some h => hex_is_zero h | None => false end in
          let hx k := match tab_hex t k with Some h => h | None => [63] end in
          let fmtv := ftab_get ft in
          let fmt_diff := fun f b a => ftab_get ft f (diff_key (hx b) (hx a)) in
          let fmt_pi := fun f => ftab_get ft f PI_KEY in
          let fstr := tab_str t in
          let numeq := tab_numeq t in
          let fhex := tab_hex t in
          match read fhex fstr numeq ro0 text with
          | ROk l0 =>
              let m := mkmlas l0 (index_initial_of l0) in
              match write fmtv fmt_diff fmt_pi fstr fz numeq o m,
                    write_sections fmtv fmt_diff fstr fz numeq (wo_version o) (wo_wrap o) (col_fmt o 0%nat) m with
              | WOk _ _, Some hs =>
                  match las_null_text fstr (hs_las hs), dsh_of fmtv fmt_pi fstr o hs with
                  | Some nt, Some _ =>
                      match opt_all (map (row_text fmtv fmt_pi o (Some nt) 0%nat) (las_rows (hs_las hs))) with
                      | Some _ =>
                          if file_hypsb fmtv fmt_pi fstr fhex ro o hs nt && negb (o_ignore_data ro) then s2l "F"
                          else if header_hypsb fstr ro hs && text_hypsb o hs
                                  && forallb (forallb (wr_tokb fhex)) (tok_matrix fmtv o nt (las_rows (hs_las hs)))
                                  && forallb is_space (wo_lhs_spacer o) && forallb is_space (wo_spacer o)
                                  && data_text_hypsb fmtv o nt (las_rows (hs_las hs)) then s2l "H"
                          else s2l "o"
                      | None => s2l "w"
                      end
                  | _, _ => s2l "w"
                  end
              | _, _ => s2l "w"
              end
          | RErr _ => s2l "r"
          end
      | _ => s2l "?"
      end
  | _ => s2l "?"
  end.
"""


DOMAIN_SAMPLE = 64


def domain_counts(tag, cases, shard):
    """-> ({"F": n, "H": n, "outside": n}, error text or None)"""
    out_f, err = lib.run_coq_cases(tag, [], RUN_DOMAIN, [(c[0], "F") for c in cases], shard=shard)
    if err:
        return None, err
    out_h, err = lib.run_coq_cases(tag + "h", [], RUN_DOMAIN, [(cases[i][0], "H") for i in out_f], shard=shard)
    if err:
        return None, err
    return {"F": len(cases) - len(out_f), "H": len(out_f) - len(out_h), "outside": len(out_h)}, None


FMTS = ["%.5f", "%.3f", "%.1f", "%.6e", "%.2e", "%g", "%.10g", "%10.3f", "%.0f"]


def rand_float(rng):
    k = rng.random()
    if k < 0.2:
        return float(rng.randint(-5000, 5000))
    if k < 0.4:
        return rng.uniform(-3000, 3000)
    if k < 0.5:
        return rng.choice([1, -1]) * rng.uniform(1, 10) * 10.0 ** rng.randint(-300, 300)
    if k < 0.6:
        return rng.choice([0.0, -0.0, 5e-324, -5e-324, 2.2250738585072014e-308, 1.7976931348623157e308, -1.7976931348623157e308,
                           0.1, 0.5, 1e-5, 123456.789012345, 1e22, 1e23, 9007199254740993.0])
    if k < 0.66:
        return round(rng.uniform(-100, 100), rng.randint(0, 6))
    if k < 0.72:
        # finite samples close to (but printed differently from) the NULL value -999.25
        return -999.25 + rng.choice([0.005, -0.005, 0.01, -0.0099, 0.05, -0.1, 0.0011])
    bits = rng.getrandbits(64)
    x = struct.unpack("<d", struct.pack("<Q", bits))[0]
    if math.isnan(x) or math.isinf(x):
        return 1.5
    return x


def fields_per_line(width, fieldlen):
    return max(1, width // fieldlen)


# (NULL item text as it stands in the file that is read first; the writer prints str() of the value read from it)
NULLS = ["-999.25", "-999.25", "-999.25", "0", "-9999", "-9999.0", "-999.2500", "999", "-1", "1e30", "0.0", "100.5"]


def prints_as(fmt, x, nullv):
    try:
        return float(fmt % x) == nullv
    except ValueError:
        return False


def gen_case(rng, vary_null=True):
    c = _gen_case(rng)
    if not vary_null:
        return c + (NULL,)
    nc, nr, rows, nan_pos, wkw = c
    null = rng.choice(NULLS)
    nullv = float(null)
    fm = lambda j: wkw["column_fmt"].get(j, wkw["fmt"])
    # non-index cells: a finite sample that would print as NULL is re-drawn (it IS the null marker on disk)
    for i in range(nr):
        for j in range(1, nc):
            for _ in range(30):
                if (i, j) in nan_pos or not (prints_as(fm(j), rows[i][j], nullv) or rows[i][j] == nullv):
                    break
                rows[i][j] = rand_float(rng)
            else:
                nan_pos.add((i, j))
    # index cells: forced to print as NULL ("index samples are never nulled")
    k = rng.random()
    if k < 0.45:
        cand = [nullv, nullv, nullv + abs(nullv) * 1e-13 + 1e-13, nullv - abs(nullv) * 1e-13 - 1e-13,
                float(np.nextafter(nullv, math.inf)), float(np.nextafter(nullv, -math.inf))]
        which = [0] if k < 0.15 else [nr - 1] if k < 0.25 else list(range(nr)) if k < 0.3 else \
            [i for i in range(nr) if rng.random() < 0.4] or [rng.randrange(nr)]
        for i in which:
            rows[i][0] = rng.choice(cand)
    return nc, nr, rows, nan_pos, wkw, null


def _gen_case(rng):
    nc = rng.choice(list(range(1, 41)) + [7, 14, 21, 28, 35, 6, 12, 18])
    nr = rng.choice([1, 1, 2, 3, 5, 20, 21, 22])
    if nc * nr > 160:
        nr = rng.choice([1, 2, 3])
    version = rng.choice([1.2, 2])
    wrap = rng.choice([True, False])
    fmt = rng.choice(FMTS)
    column_fmt = {}
    if rng.random() < 0.3:
        for j in rng.sample(range(nc), min(nc, rng.randint(1, 2))):
            column_fmt[j] = rng.choice(FMTS)
    lnf = rng.choice([None, None, -1, 12, 16, 25])
    spacer = rng.choice([" ", " ", "  ", "\t", ""])
    lhs = rng.choice([" ", "", "   ", "\t"])
    data_width = rng.choice([79, 79, 40, 120, 20, 200, 12])
    mn_header = rng.random() < 0.25
    dsh = rng.choice(["~ASCII", "~ASCII", "~A", "~Ascii Log Data", "~A  Depth"])
    rows = [[rand_float(rng) for _ in range(nc)] for _ in range(nr)]
    nan_pos = set()
    for i in range(nr):
        for j in range(1, nc):
            if rng.random() < 0.12:
                nan_pos.add((i, j))
    wkw = dict(version=version, wrap=wrap, fmt=fmt, column_fmt=column_fmt, len_numeric_field=lnf, spacer=spacer,
               lhs_spacer=lhs, data_width=data_width, mnemonics_header=mn_header, data_section_header=dsh)
    return nc, nr, rows, nan_pos, wkw


NULL = "-999.25"


def in_domain(nc, nr, rows, nan_pos, wkw, NULL=NULL):
    """spacing guarantees that tokens are separated; no finite NON-INDEX sample prints as NULL"""
    fm = lambda j: wkw["column_fmt"].get(j, wkw["fmt"])
    toks = [[(str(tonum(NULL)) if (i, j) in nan_pos else fm(j) % rows[i][j]) for j in range(nc)] for i in range(nr)]
    lnf = wkw["len_numeric_field"]
    if lnf is None:
        lnf = 10
        while len(wkw["fmt"] % np.pi) > lnf - 1:
            lnf += 1
    for i in range(nr):
        for j in range(nc):
            t = toks[i][j]
            if (i, j) not in nan_pos and j >= 1:
                try:
                    if float(t) == float(NULL):
                        return False
                except ValueError:
                    return False
            if j >= 1 and wkw["spacer"] == "":
                if lnf == -1 or len(t) >= lnf:
                    return False
    return True


def tonum(null):
    """the value lasio's reader gives the NULL item (int literal -> int, else float); the writer prints str() of it"""
    try:
        return int(null)
    except ValueError:
        return float(null)


def build_text(nc, nr, rows, nan_pos, NULL=NULL):
    """A LAS text whose reading gives exactly these float64 samples (repr round-trips)."""
    s = lasgen.Spec()
    s.version = "2.0"
    s.null = NULL
    s.well = [("STRT", "M", "0", "START"), ("STOP", "M", "0", "STOP"), ("STEP", "M", "0", "STEP")]
    s.curves = [("DEPT" if j == 0 else "C%d" % j, "M" if j == 0 else "", "", "curve %d" % j) for j in range(nc)]
    s.rows = [[(NULL if (i, j) in nan_pos else repr(rows[i][j])) for j in range(nc)] for i in range(nr)]
    return lasgen.render(s)[0]


def oracle(nc, nr, rows, nan_pos, wkw, text0):
    import lasio
    import io
    try:
        las = lasio.read(text0, engine="normal")
    except Exception as e:
        return "building the LASFile failed: %r" % (e,), None
    for j in range(nc):
        for i in range(nr):
            g = las.curves[j].data[i]
            if (i, j) in nan_pos:
                if not math.isnan(g):
                    return "setup: NaN not in place", None
            elif float(g).hex() != float(rows[i][j]).hex():
                return "setup: sample (%d,%d) %r != %r" % (i, j, g, rows[i][j]), None
    buf = io.StringIO()
    try:
        las.write(buf, **wkw)
    except Exception as e:
        return "write raised %s: %s" % (type(e).__name__, str(e)[-100:]), None
    t1 = buf.getvalue()
    fm = lambda j: wkw["column_fmt"].get(j, wkw["fmt"])
    for engine in ("numpy", "normal"):
        try:
            l2 = lasio.read(t1, engine=engine)
        except Exception as e:
            return "re-read (%s) raised %s: %s" % (engine, type(e).__name__, str(e)[-100:]), t1
        if len(l2.curves) != nc:
            return "%s: %d curves after write->read, expected %d" % (engine, len(l2.curves), nc), t1
        if [c.original_mnemonic for c in l2.curves] != [c.original_mnemonic for c in las.curves]:
            return "%s: mnemonics changed" % engine, t1
        for j in range(nc):
            col = l2.curves[j].data
            if len(col) != nr:
                return "%s: curve %d has %d rows, expected %d" % (engine, j, len(col), nr), t1
            for i in range(nr):
                g = col[i]
                if (i, j) in nan_pos:
                    if not (isinstance(g, float) and math.isnan(g)):
                        return "%s: NaN at (%d,%d) came back as %r" % (engine, i, j, g), t1
                else:
                    e = float(fm(j) % rows[i][j])
                    if not (isinstance(g, float) and float(g).hex() == e.hex()):
                        return "%s: sample (%d,%d)=%r written as %r came back as %r" % (engine, i, j, rows[i][j], fm(j) % rows[i][j], g), t1
    return None, t1


def run(ctx):
    res = lib.Result()
    rng = ctx.rng
    n = 3000 if ctx.thorough else 130
    cases, meta, kinds = [], [], set()
    hist = {"wrapped": 0, "multiple_of_fields_per_line": 0, "nan_cells": 0, "lnf_-1": 0, "tab_spacer": 0, "mnemonics_header": 0,
            "out_of_domain_skipped": 0, "huge_or_tiny": 0, "null_not_-999.25": 0, "null_integer": 0, "null_zero": 0,
            "index_prints_as_null_cases": 0, "index_prints_as_null_cells": 0}
    tried = 0
    while len(meta) < n and tried < 20 * n:
        tried += 1
        nc, nr, rows, nan_pos, wkw, null = gen_case(rng)
        if not in_domain(nc, nr, rows, nan_pos, wkw, null):
            hist["out_of_domain_skipped"] += 1
            continue
        text0 = build_text(nc, nr, rows, nan_pos, null)
        bad, t1 = oracle(nc, nr, rows, nan_pos, wkw, text0)
        if bad:
            res.oracle_violations.append({"payload": payload_of(nc, nr, rows, nan_pos, wkw, null), "what": bad})
        eng = rng.choice(["numpy", "normal"])
        ops = [("R", {"engine": "normal"}), ("W", wkw), ("R", {"engine": eng})]
        c, r = wm.coq_case(text0, ops)
        cases.append(c)
        meta.append((text0, ops))
        lnf = wkw["len_numeric_field"] or 11
        kinds.add((nc, min(nr, 3), wkw["version"], wkw["wrap"], wkw["fmt"], bool(wkw["column_fmt"]), wkw["len_numeric_field"],
                   wkw["spacer"], wkw["lhs_spacer"], wkw["data_width"], wkw["mnemonics_header"]))
        n_idx_null = sum(1 for i in range(nr) if prints_as(wkw["column_fmt"].get(0, wkw["fmt"]), rows[i][0], float(null)))
        hist["null_not_-999.25"] += float(null) != -999.25
        hist["null_integer"] += isinstance(tonum(null), int)
        hist["null_zero"] += float(null) == 0
        hist["index_prints_as_null_cases"] += n_idx_null > 0
        hist["index_prints_as_null_cells"] += n_idx_null
        hist["wrapped"] += wkw["wrap"]
        hist["multiple_of_fields_per_line"] += wkw["wrap"] and lnf > 0 and nc % fields_per_line(wkw["data_width"], lnf + 1) == 0
        hist["nan_cells"] += len(nan_pos)
        hist["lnf_-1"] += wkw["len_numeric_field"] == -1
        hist["tab_spacer"] += wkw["spacer"] == "\t"
        hist["mnemonics_header"] += wkw["mnemonics_header"]
        hist["huge_or_tiny"] += any(abs(x) > 1e100 or (x != 0 and abs(x) < 1e-100) for r_ in rows for x in r_)
    import time
    t_py = time.time()
    if ctx.build.model_ok:
        mism, err = lib.run_coq_cases("c01", [], wm.RUN_PIPE, cases, shard=8)
        res.extra["coq_eval_s"] = round(time.time() - t_py, 1)
        res.corr_error = err
        for i in mism:
            res.mismatches.append({"text": meta[i][0], "ops": repr(meta[i][1])})
        if not err:
            t_dom = time.time()
            # quick tier: the first cases (generation order is random; a C01 case costs ~1 s: up to 40 curves x 22 rows)
            dcases = cases[:(DOMAIN_SAMPLE * 4 if ctx.thorough else DOMAIN_SAMPLE // 2)]
            dom, derr = domain_counts("c01dom", dcases, 1)     # one case per coqc: a wrapped case can cost 30 s
            res.extra["domain_eval_s"] = round(time.time() - t_dom, 1)
            if derr:
                res.corr_error = "domain: " + derr
            else:
                hist["theorem_domain_evaluated_on"] = len(dcases)
                hist["in_domain_of_C01_file_roundtrip_checked"] = dom["F"]
                hist["in_domain_of_C03_file_roundtrip_only"] = dom["H"]
                hist["outside_both_theorem_domains"] = dom["outside"]
    else:
        res.corr_error = "model not built"
    res.cases = len(cases)
    res.distinct_nontrivial = len(kinds)
    res.rule = ("LASFiles with 1..40 float curves (every multiple of the fields-per-line count forced), rows in {1,2,3,5,20,21,22}, "
                "samples over the whole float64 range (integers, decimals, 1e-300..1e300, denormals, max, random bit patterns), NaN at "
                "non-index positions; NULL value drawn from {-999.25, 0, -9999, -9999.0, -999.2500, 999, -1, 1e30, 0.0, 100.5} and in "
                "45 % of the files one/several/all INDEX samples chosen so that they print numerically equal to NULL (they must "
                "come back as numbers); written with random (version, wrap, fmt, column_fmt, len_numeric_field, spacer, lhs_spacer, "
                "data_width, mnemonics_header, data_section_header) and read back with both engines; non-trivial = distinct "
                "(curve count, rows class, option tuple)")
    res.samples = [repr(meta[0][1][1][1]), repr(meta[-1][1][1][1])]
    res.histogram = hist
    return res


def payload_of(nc, nr, rows, nan_pos, wkw, null):
    return {"nc": nc, "nr": nr, "rows": [[float(x).hex() for x in r] for r in rows], "nan": sorted(nan_pos), "wkw": wkw,
            "null": null}


def replay(payload):
    rows = [[float.fromhex(x) for x in r] for r in payload["rows"]]
    nan_pos = {tuple(x) for x in payload["nan"]}
    wkw = dict(payload["wkw"])
    wkw["column_fmt"] = {int(k): v for k, v in (wkw.get("column_fmt") or {}).items()}
    text0 = build_text(payload["nc"], payload["nr"], rows, nan_pos, payload.get("null", NULL))
    bad, _ = oracle(payload["nc"], payload["nr"], rows, nan_pos, wkw, text0)
    return bad is not None, bad or "ok"


def search(ctx, res):
    import random
    rng = random.Random(ctx.seed + 21)
    for _ in range(5000):
        nc, nr, rows, nan_pos, wkw, null = gen_case(rng)
        if not in_domain(nc, nr, rows, nan_pos, wkw, null):
            continue
        text0 = build_text(nc, nr, rows, nan_pos, null)
        bad, _ = oracle(nc, nr, rows, nan_pos, wkw, text0)
        if bad:
            yield {"payload": payload_of(nc, nr, rows, nan_pos, wkw, null), "what": bad}
            return
