"""C19 — ignore_header_errors makes header parsing tolerant and non-interfering."""
import re

import lib
import corpus_files
import lasgen
import readmodel as rm

PROP = "C19"
MODEL_TARGETS = ["Corr/ReadShow.vo"]
THEOREMS = ["C19_total", "C19_total_ok", "C19_read_total", "C19_unparsable_skipped", "C19_parsable_adds_one", "C19_junk_adds_at_most_one", "C19_genuine_subsequence", "C19_genuine_subsequence_flag", "C19_fields_frame", "C19_only_header_error", "C19_error_names_line", "C19_read_only_header_error", "C19_flag_irrelevant_when_clean", "C19_sect_append_frame", "C19_steering_lookup", "C19_steering_frame", "C19_data_reads_only", "C19_data_frame", "C19_read_ok", "C19_frame_meaning", "C19_parse_section_current", "C19_parse_section_found_current"]
ASSUMPTIONS = [
    "an exception raised from inside CPython's re (recursion/time limits on pathological lines) is not in the model; exercised by the very long lines only",
    "junk lines do not start with '~' and, when they parse, do not name VERS/WRAP/DLM/NULL (as the property states)",
]

STEER = {"VERS", "WRAP", "DLM", "NULL"}


def junk_line(rng):
    k = rng.random()
    if k < 0.25:
        return "".join(rng.choice("ABCxyz019 .:-_/()[]'\"%#+*&=,;<>!?@^|\\{}`$") for _ in range(rng.randint(1, 12)))
    if k < 0.35:
        return "".join(rng.choice(".:,;!?-") for _ in range(rng.randint(1, 6)))
    if k < 0.42:
        return "." * rng.randint(1, 5)
    if k < 0.49:
        return ":" * rng.randint(1, 4)
    if k < 0.56:
        return rng.choice(['"', "'", '""', "'quoted text'", '"a.b : c"'])
    if k < 0.565:
        # a unit field wrapped in very many bracket pairs (strip_brackets must not recurse per pair)
        n = rng.choice([600, 1500, 3000])
        o, c = rng.choice(["()", "[]"])
        return "X." + o * n + c * n + " 5 : deep brackets"
    if k < 0.57:
        return "x" * 5000
    if k < 0.58:
        return ("ab.cd :" * 120)
    if k < 0.85:
        return rng.choice(["no delimiters at all", "just text", "12345", "-----", "=====", "STRT", "COMP WELL", "a b c d", "(null)",
                           "END", "\\", "???", "1 2 3 4"])
    if k < 0.90:
        # a colon before the first period, trailing/leading blanks and tabs
        return rng.choice(["note: see rev. 2", "foo: 1.5", ":.", "remark : a.b.c : d", "   indented junk", "junk with trailing blanks   ",
                           "\ttabbed\tjunk", "a:b.c", "x: y.z : w."])
    return rng.choice(["JUNK.M  12 : looks like an item", "Q . : ", "X.Y.Z : w", "K : v", "A.B C D", ".5", "5.", ". . .", ": : :",
                       "SERIAL. 12345678901234567890 : twenty digits", "1:9999999999999999999999", ". 7777777777777777777777777",
                       "BIG. -99999999999999999999999999999 : x", "E. 1e999 : overflow", "H. 0x1F : hex", "U. 1_000 : underscore",
                       "N. nan : not a number", "I. -inf : infinity", "L." + "9" * 400 + " : very long number"])


def is_allowed_junk(line):
    st = line.strip()
    if not st or st.startswith("~") or st.startswith("#"):
        return False
    from lasio.reader import read_header_line
    for sect in ("Version", "Well", "Parameter", "~X"):
        try:
            d = read_header_line(st, section_name=sect)
        except Exception:
            continue
        if d["name"].upper() in STEER:
            return False
    return True


def sections_of(lines):
    out = []
    cur = None
    for i, ln in enumerate(lines):
        st = ln.strip()
        if st.startswith("~"):
            cur = [st[1:2].upper(), i, []]
            out.append(cur)
        elif cur is not None:
            cur[2].append(i)
    return out


def insert_junk(rng, text, n):
    lines = text.split("\n")
    secs = [s for s in sections_of(lines) if s[0] not in ("C", "A", "O", "")]
    if not secs:
        return None, []
    inserted = []
    for _ in range(n):
        s = rng.choice(secs)
        j = junk_line(rng)
        if not is_allowed_junk(j):
            continue
        pos = rng.choice([s[1] + 1] + [i + 1 for i in s[2]])
        lines.insert(pos, j)
        inserted.append(j)
        secs = [x for x in sections_of(lines) if x[0] not in ("C", "A", "O", "")]
    return "\n".join(lines), inserted


SYSTEMATIC_JUNK = ["X." + "(" * 1500 + ")" * 1500 + " 5 : d", "note: see rev. 2", "foo: 1.5", ":.", "no delimiters at all", "X.Y.Z : w", "12345", "a:b.c"]


def systematic_sites(rng, text):
    """[(junked text, [junk])]: one junk line directly after the title / directly before the next title of each header section"""
    lines = text.split("\n")
    out = []
    for letter, title_i, body in sections_of(lines):
        if letter in ("C", "A", "O", ""):
            continue
        for pos in {title_i + 1, (body[-1] + 1) if body else title_i + 1}:
            j = rng.choice(SYSTEMATIC_JUNK)
            if not is_allowed_junk(j):
                continue
            ls = list(lines)
            ls.insert(pos, j)
            out.append(("\n".join(ls), [j]))
    return out


def genuine(las):
    """{section: [(original mnemonic, unit, value repr, descr)]} and the data"""
    out = {}
    for k, sec in las.sections.items():
        if isinstance(sec, str):
            out[k] = sec
        else:
            out[k] = [(it.original_mnemonic, it.unit, rm.hval(it.value), it.descr) for it in sec]
    data = [[rm.show_cell(x) for x in c.data] for c in las.curves]
    return out, data


def is_subsequence(small, big):
    it = iter(big)
    return all(any(x == y for y in it) for x in small)


def oracle(base, junked):
    import lasio
    import lasio.exceptions
    try:
        l0 = lasio.read(base)
    except Exception:
        return None
    try:
        l1 = lasio.read(junked, ignore_header_errors=True)
    except Exception as e:
        return "read(ignore_header_errors=True) raised %s: %s" % (type(e).__name__, str(e)[-100:])
    g0, d0 = genuine(l0)
    g1, d1 = genuine(l1)
    if d0 != d1:
        return "curve data changed by junk header lines"
    for k, items in g0.items():
        if k not in g1:
            return "section %r disappeared" % k
        if isinstance(items, str):
            if g1[k] != items:
                return "text section %r changed" % k
        elif not is_subsequence(items, g1[k]):
            return "genuine items of %r are no longer a subsequence: %r vs %r" % (k, items, g1[k])
    named = None
    try:
        lasio.read(junked)
    except lasio.exceptions.LASHeaderError as e:
        # "a header error naming that line": the message quotes one of the lines of the text, and that line is not a line of the base
        msg = str(e)
        base_lines = {ln.strip() for ln in base.split("\n")}
        cands = [ln.strip() for ln in junked.split("\n") if ln.strip() and ln.strip() not in base_lines]
        named = next((c for c in cands if '"%s"' % c in msg), None)
        if named is None:
            return "without the flag the header error does not name an inserted line: %r" % msg[-160:]
    except Exception as e:
        return "without the flag the junk raised %s instead of LASHeaderError" % type(e).__name__
    if named is not None:
        # with the flag the same line is skipped WITH A WARNING naming it
        msgs = warnings_of(lambda: lasio.read(junked, ignore_header_errors=True))
        if not any('"%s"' % named in m for m in msgs):
            return "with the flag the unparsable line %r is skipped without a warning naming it (warnings: %r)" % (named[:60], [m[-80:] for m in msgs][:3])
    return None


def warnings_of(fn):
    """messages logged at WARNING level or above by lasio while fn runs (./check disables logging globally)"""
    import logging
    got = []

    class H(logging.Handler):
        def emit(self, record):
            try:
                got.append(record.getMessage())
            except Exception:
                got.append(str(record.msg))
    h = H(level=logging.WARNING)
    root = logging.getLogger("lasio")
    prev_disable = logging.root.manager.disable
    prev_level = root.level
    logging.disable(logging.NOTSET)
    root.addHandler(h)
    if root.level == 0 or root.level > logging.WARNING:
        root.setLevel(logging.WARNING)
    try:
        fn()
    except Exception:
        pass
    finally:
        root.removeHandler(h)
        root.setLevel(prev_level)
        logging.disable(prev_disable)
    return got


def run(ctx):
    res = lib.Result()
    rng = ctx.rng
    bases = [("corpus:" + n, t) for n, t in corpus_files.corpus(8000)]
    for i in range(60 if ctx.thorough else 25):
        s = lasgen.basic_spec(rng)
        if rng.random() < 0.4:
            s.custom.append(("~Tops", [("T1", "M", "5", "top"), ("T2", "M", "7.5", "base")]))
            s.order.append(("X", 0))
        bases.append(("gen:%d" % i, lasgen.render(s)[0]))
    per = 20 if ctx.thorough else 3
    cases, meta, kinds = [], [], set()
    hist = {"junk_lines": 0, "with_flag": 0, "without_flag": 0, "junk_that_parses": 0, "systematic_first_or_last_line": 0}
    for name, text in bases:
        variants = [insert_junk(rng, text, rng.randint(1, 5)) for _ in range(per)]
        # one junk line as the FIRST and one as the LAST line of a header section (every section kind over the bases)
        sysv = systematic_sites(rng, text)
        rng.shuffle(sysv)
        variants += sysv[:(8 if ctx.thorough else 2)]
        hist["systematic_first_or_last_line"] += len(sysv[:(8 if ctx.thorough else 2)])
        for junked, ins in variants:
            if not ins:
                continue
            bad = oracle(text, junked)
            if bad:
                res.oracle_violations.append({"payload": {"base": text, "junked": junked, "junk": ins}, "what": "%s: %s" % (name, bad)})
            deep = any(j.startswith(("X.((((", "X.[[[[")) for j in ins)
            if deep:
                # oracle only: the CPS regex matcher of the model needs minutes on a 3000-bracket line; the function that
                # matters there (strip_brackets) is pinned to the source for every input
                hist["deep_brackets_oracle_only"] = hist.get("deep_brackets_oracle_only", 0) + 1
            for flag in ((True, False) if not deep else ()):
                exp, _ = rm.impl_read(junked, ignore_header_errors=flag)
                cases.append(rm.coq_case(junked, exp, ignore_header_errors=flag))
                meta.append((name, junked, flag, ins))
            for j in ins:
                kinds.add(j[:40])
            hist["junk_lines"] += len(ins)
            hist["with_flag"] += 1
            hist["without_flag"] += 1
    if ctx.build.model_ok:
        mism, err = lib.run_coq_cases("c19", [], rm.RUN_READ, cases, shard=30)
        res.corr_error = err
        for i in mism:
            res.mismatches.append({"base": meta[i][0], "text": meta[i][1], "flag": meta[i][2], "junk": meta[i][3]})
    else:
        res.corr_error = "model not built"
    res.cases = len(cases)
    res.distinct_nontrivial = len(kinds)
    res.rule = ("readable bases (corpus + generated, with custom sections) x 1..5 junk lines (random printable ASCII, only punctuation, "
                "only periods, only colons, quotes, 5000-character lines, look-alikes of items) inserted at random sites of ~V, ~W, "
                "~P and custom sections; read with and without ignore_header_errors; non-trivial = distinct junk lines")
    res.samples = [repr(m[3]) for m in meta[:3]]
    res.histogram = hist
    return res


def replay(payload):
    bad = oracle(payload["base"], payload["junked"])
    return bad is not None, bad or "ok"


def search(ctx, res):
    import random
    rng = random.Random(ctx.seed + 71)
    bases = [t for n, t in corpus_files.corpus(8000)] + [lasgen.render(lasgen.basic_spec(rng))[0] for _ in range(100)]
    for _ in range(60):
        for text in bases:
            junked, ins = insert_junk(rng, text, rng.randint(1, 5))
            if ins:
                bad = oracle(text, junked)
                if bad:
                    yield {"payload": {"base": text, "junked": junked, "junk": ins}, "what": bad}
                    return
