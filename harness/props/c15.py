"""C15 — section lookup by key, attribute, membership and get() always agree."""
import lib
from props import items_common as ic

PROP = "C15"
MODEL_TARGETS = ["Model/Items.vo", "Model/ItemsObs.vo"]
THEOREMS = ["C15_contains_iff", "C15_first", "C15_attr", "C15_missing", "C15_get_pure", "C15_get_present",
            "C15_get_add", "C15_set_value_frame", "C15_set_value_fields", "C15_delete_frame", "C15_int",
            "C15_int_set_item", "C15_slice", "C15_contains_current", "C15_getitem_current", "C15_delitem_current"]
ASSUMPTIONS = [
    "hand model of las_items.py (Model/Items.v) tied by correspondence: every generated operation sequence is run on "
    "the real SectionItems and on the model inside Coq; compared: result/exception class of every step, the full "
    "state after every step, and after the last step the probes k in s / s[k] / getattr / get / del for 9 string "
    "keys, 8 int keys, 8 slices (object identity observed as position)",
    "str.upper() is modelled as ASCII upper-casing (List.map ascii_upper); generated mnemonics are ASCII",
    "exclusion 1 (language level): `k in s` is claimed for string keys only (for ints it is False although s[k] works)",
    "exclusion 2 (language level): attribute access is claimed for names that are not attributes of the object/class "
    "(dir(s)); those never reach SectionItems.__getattr__.  A plain value assigned to a missing attribute name becomes "
    "an ordinary Python attribute (removed again by the harness)",
    "slices: read access with step >= 1 is modelled (negative steps are passed to list.__getitem__ unchanged, not "
    "modelled); `del s[a:b]` raises KeyError and `s[a:b] = ...` is a silent no-op in lasio (recorded, outside the "
    "statement's formal reading: DESIGN.md C15)",
    "bulk comparison of observation texts goes through a three-sum digest computed on both sides (ItemsObs.digest); "
    "a sample of cases is compared as full text",
    "value semantics: items handed to a section are fresh objects (one object is never in two places)",
    "assign_duplicate_suffixes() (no argument) iterates a Python set of useful mnemonics; the model folds over them in "
    "list order (the rule is idempotent per group, so the order is immaterial; runs use PYTHONHASHSEED=0)",
]


# ---- direct oracle, written from the statement ---------------------------------------------------
def deep_clone(s):
    """An independent section with the same content (built without copy/pickle)."""
    from lasio import SectionItems
    items = []
    for it in list.__iter__(s):
        n = type(it)(it.original_mnemonic, it.unit, it.value, it.descr, it.data)
        n.set_session_mnemonic_only(it.mnemonic)
        items.append(n)
    c = SectionItems(items)
    if s.mnemonic_transforms:
        c.mnemonic_transforms = True
    return c


def fields_of(it):
    return (it.original_mnemonic, it.mnemonic, it.unit, it.value, it.descr, ic.render_data(it.data), type(it).__name__)


def oracle_state(s, keys, ints):
    """Yields (check name, key, text) for every clause of the statement that fails on s."""
    tr = s.mnemonic_transforms
    lst = list(list.__iter__(s))
    n = len(lst)
    own_attrs = set(dir(s))

    def eq(a, b):
        return a == b or (tr and a.upper() == b.upper())

    for k in keys:
        first_pos = next((j for j, it in enumerate(lst) if eq(it.mnemonic, k)), None)
        first = lst[first_pos] if first_pos is not None else None
        try:
            inn = k in s
        except Exception as e:          # noqa: BLE001
            yield ("contains", k, "k in s raised %s" % ic.exc(e))
            continue
        try:
            got, ok = s[k], True
        except KeyError:
            got, ok = None, False
        except Exception as e:          # noqa: BLE001
            yield ("missing", k, "s[k] raised %s, not KeyError" % ic.exc(e))
            continue
        if inn != ok:
            yield ("contains_iff", k, "k in s is %s but s[k] %s" % (inn, "succeeds" if ok else "raises KeyError"))
        if ok and got is not first:
            yield ("first", k, "s[k] is not the first item whose session mnemonic matches")
        if not ok and first is not None:
            yield ("first", k, "an item matches but s[k] raised KeyError")
        if k not in own_attrs:
            try:
                a, aok = getattr(s, k), True
            except AttributeError:
                a, aok = None, False
            except Exception as e:      # noqa: BLE001
                yield ("attr", k, "getattr raised %s" % ic.exc(e))
                a, aok = None, None
            if aok is not None:
                if first is not None and (not aok or a is not first):
                    yield ("attr", k, "attribute access does not return the item s[k] returns")
                if first is None and aok:
                    yield ("attr", k, "attribute access succeeds for a missing key")
        if first is None:
            c = ic.clone(s)
            try:
                del c[k]
                yield ("missing", k, "del s[k] on a missing key did not raise")
            except KeyError:
                pass
            except Exception as e:      # noqa: BLE001
                yield ("missing", k, "del s[k] raised %s, not KeyError" % ic.exc(e))
        # get() without add never changes the section
        before = [(id(it),) + fields_of(it) for it in lst]
        try:
            g = s.get(k, "dflt")
        except Exception as e:          # noqa: BLE001
            yield ("get_pure", k, "get raised %s" % ic.exc(e))
            g = None
        after = [(id(it),) + fields_of(it) for it in list.__iter__(s)]
        if after != before or s.mnemonic_transforms != tr:
            yield ("get_pure", k, "get() without add changed the section")
        if g is not None:
            if first is not None and g is not first:
                yield ("get_present", k, "get() returned another item than s[k]")
            if first is None and any(g is it for it in lst):
                yield ("get_pure", k, "get() on a missing key returned an item of the section")
        # get(add=True): exactly one item appended (missing) / nothing changed (present)
        c = deep_clone(s)
        cb = list(list.__iter__(c))
        cb_f = [fields_of(it)[:1] + fields_of(it)[2:] for it in cb]
        try:
            g = c.get(k, "dflt", add=True)
            ca = list(list.__iter__(c))
            ca_f = [fields_of(it)[:1] + fields_of(it)[2:] for it in ca]
            if first is None:
                good = (len(ca) == len(cb) + 1 and all(x is y for x, y in zip(ca, cb)) and ca[-1] is g
                        and g.original_mnemonic == k and ca_f[:-1] == cb_f)
                if not good:
                    yield ("get_add", k, "get(add=True) on a missing key did not append exactly one item named k")
            else:
                if not (len(ca) == len(cb) and all(x is y for x, y in zip(ca, cb)) and g is cb[first_pos]
                        and [fields_of(it) for it in ca] == [fields_of(it) for it in lst]):
                    yield ("get_add", k, "get(add=True) on a present key changed the section")
        except Exception as e:          # noqa: BLE001
            yield ("get_add", k, "get(add=True) raised %s" % ic.exc(e))
        # get(k, <an item>, add=True) on a missing key: the appended item is named k and carries the default item's
        # unit, value, description (and, for a curve, a copy of its array) - "default to provide if mnemonic is missing"
        if first is None and lst:
            c = deep_clone(s)
            di = list.__getitem__(c, 0)
            try:
                g = c.get(k, di, add=True)
                want = (k, di.unit, di.value, di.descr, ic.render_data(di.data), type(di).__name__)
                got = (g.original_mnemonic, g.unit, g.value, g.descr, ic.render_data(g.data), type(g).__name__)
                if g is di or got != want or list.__getitem__(c, len(c) - 1) is not g:
                    yield ("get_item_default", k, "get(k, item, add=True) appended %r, the default item gives %r" % (got, want))
            except Exception as e:      # noqa: BLE001
                yield ("get_item_default", k, "get(k, item, add=True) raised %s" % ic.exc(e))
        # assigning a plain value changes only that item's value
        if first is not None:
            c = deep_clone(s)
            cb = [fields_of(it) for it in list.__iter__(c)]
            objs = list(list.__iter__(c))
            try:
                c[k] = "newvalue"
                ca = [fields_of(it) for it in list.__iter__(c)]
                exp = list(cb)
                f = exp[first_pos]
                exp[first_pos] = f[:3] + ("newvalue",) + f[4:]
                if ca != exp or any(x is not y for x, y in zip(objs, list.__iter__(c))):
                    yield ("set_value", k, "s[k] = value changed something else than that item's value")
            except Exception as e:      # noqa: BLE001
                yield ("set_value", k, "s[k] = value raised %s" % ic.exc(e))
            # deleting by key removes exactly that item, order of the rest preserved
            c = ic.clone(s)
            try:
                del c[k]
                rest = list(list.__iter__(c))
                exp = lst[:first_pos] + lst[first_pos + 1:]
                if len(rest) != len(exp) or any(x is not y for x, y in zip(rest, exp)):
                    yield ("delete", k, "del s[k] did not remove exactly the first matching item")
            except Exception as e:      # noqa: BLE001
                yield ("delete", k, "del s[k] raised %s" % ic.exc(e))
    # integer keys address positions exactly as in a list
    for z in ints:
        valid = -n <= z < n
        try:
            got, ok = s[z], True
        except IndexError:
            got, ok = None, False
        except Exception as e:          # noqa: BLE001
            yield ("int", z, "s[int] raised %s" % ic.exc(e))
            continue
        if ok != valid or (ok and got is not lst[z]):
            yield ("int", z, "s[%d] does not address the list position" % z)
        c = ic.clone(s)
        ref = list(lst)
        try:
            del c[z]
            dok = True
        except IndexError:
            dok = False
        except Exception as e:          # noqa: BLE001
            yield ("int", z, "del s[int] raised %s" % ic.exc(e))
            continue
        if valid:
            del ref[z]
        rest = list(list.__iter__(c))
        if dok != valid or len(rest) != len(ref) or any(x is not y for x, y in zip(rest, ref)):
            yield ("int_delete", z, "del s[%d] does not behave as on a list" % z)
        if valid:
            c = deep_clone(s)
            cb = [fields_of(it) for it in list.__iter__(c)]
            try:
                c[z] = "newvalue"
                exp = list(cb)
                f = exp[z]
                exp[z] = f[:3] + ("newvalue",) + f[4:]
                if [fields_of(it) for it in list.__iter__(c)] != exp:
                    yield ("int_set_value", z, "s[%d] = value changed something else" % z)
            except Exception as e:      # noqa: BLE001
                yield ("int_set_value", z, "s[int] = value raised %s" % ic.exc(e))
            # s[int] = item replaces the item at that position
            from lasio import HeaderItem
            c = deep_clone(s)
            cb = list(list.__iter__(c))
            new = type(cb[z])("ZZNEW") if cb else HeaderItem("ZZNEW")
            try:
                c[z] = new
                ca = list(list.__iter__(c))
                ref = list(cb)
                ref[z] = new
                if len(ca) != len(ref) or any(x is not y for x, y in zip(ca, ref)):
                    yield ("int_set_item", z, "s[%d] = item did not replace the item at that position" % z)
            except Exception as e:      # noqa: BLE001
                yield ("int_set_item", z, "s[int] = item raised %s" % ic.exc(e))
    for (a, b, st) in ic.SLICES + [(None, None, -1), (-1, 0, -2)]:
        sl = slice(a, b, st)
        try:
            got = list(list.__iter__(s[sl]))
        except Exception as e:          # noqa: BLE001
            yield ("slice", repr(sl), "s[slice] raised %s" % ic.exc(e))
            continue
        ref = lst[sl]
        if len(got) != len(ref) or any(x is not y for x, y in zip(got, ref)):
            yield ("slice", repr(sl), "s[%r] does not address list positions" % (sl,))


def probe_keys_for(s):
    ks = list(ic.PROBE_KEYS)
    for it in list.__iter__(s):
        for k in (it.mnemonic, it.mnemonic.swapcase(), it.original_mnemonic):
            if k not in ks:
                ks.append(k)
    return ks


def probe_ints_for(s):
    n = len(s)
    out = list(ic.PROBE_INTS)
    for z in (n, n - 1, -n, -n - 1):
        if z not in out:
            out.append(z)
    return out


def signature(s, curve):
    return (tuple((it.original_mnemonic, it.mnemonic) for it in list.__iter__(s)), s.mnemonic_transforms, curve)


def check_ops(tr, curve, ops):
    """Run a sequence and evaluate the oracle on its final state -> list of violation dicts."""
    sim = ic.Sim(tr, curve)
    for o in ops:
        sim.apply(o)
    out = []
    for (name, k, text) in oracle_state(sim.s, probe_keys_for(sim.s), probe_ints_for(sim.s)):
        out.append({"payload": {"kind": "seq", "tr": tr, "curve": curve, "ops": ops, "check": name, "key": k},
                    "what": "after %s (transforms=%s): key %r: %s" % (ops, tr, k, text)})
    return out


# Curve sections whose arrays have every dtype lasio accepts (int32, int64, bool, datetime64, object, text, empty) and
# in particular a non-floating FIRST curve: get() computes np.asarray(first.data) * nan.  Judged by the direct oracle
# only (Items.nan_like models the floating case).  ON since lasio 0713d69 (before it get(k, default) raised TypeError
# when the first curve held text / datetime64 / object data).
TYPED_FIRST_CURVE = True


# ---- generation -------------------------------------------------------------------------------------
ALPHABETS = {"full": ic.full_alphabet, "mid": ic.mid_alphabet, "intlike": ic.intlike_alphabet}
SAMPLE_EVERY = 97


def families(ctx):
    """(family, alphabet, length, tr, curve): ALL sequences of exactly that length"""
    fams = []
    for tr in (False, True):
        fams += [("full<=2", "full", n, tr, False) for n in (1, 2)]
        fams += [("mid<=2(curves)", "mid", n, tr, True) for n in (1, 2)]
        fams += [("intlike<=3", "intlike", n, tr, False) for n in (1, 2, 3)]
        if ctx.thorough:
            fams += [("full<=2(curves)", "full", n, tr, True) for n in (1, 2)]
            fams += [("mid=3", "mid", 3, tr, False)]
    return fams


def decode_input(inp):
    recs = inp.split(ic.RS)
    hd = recs[0].split(ic.FS)
    return hd[0] == "T", hd[1] == "T", [r.split(ic.FS) for r in recs[3:]]


def decode_probes(inp):
    recs = inp.split(ic.RS)
    pk = ic.PROBE_KEYS if recs[1] == "" and recs[2] == "" else recs[1].split(ic.FS)
    pi = ic.PROBE_INTS if recs[2] == "" else [int(z) for z in recs[2].split(ic.FS)]
    return pk, pi


def run_one(tr, curve, ops, keep_text, seen, state_probes=False, pk=None):
    """-> (input, digest, text or None, violations); the oracle runs once per distinct final state"""
    pk, pi = (pk or ic.PROBE_KEYS), ic.PROBE_INTS
    if state_probes:
        sim = ic.Sim(tr, curve)
        for o in ops:
            sim.apply(o)
        pk = probe_keys_for(sim.s)[:16]
        pi = probe_ints_for(sim.s)
    inp, exp, sim = ic.run_sequence(tr, curve, ops, mode="h", pk=pk, pi=pi)
    viol = []
    sig = signature(sim.s, curve)
    if sig not in seen:
        seen.add(sig)
        for (name, k, text) in oracle_state(sim.s, probe_keys_for(sim.s), probe_ints_for(sim.s)):
            viol.append({"payload": {"kind": "seq", "tr": tr, "curve": curve, "ops": ops, "check": name, "key": k},
                         "what": "after %s (transforms=%s): key %r: %s" % (ops, tr, k, text)})
    return inp, ic.digest(exp), (exp if keep_text else None), viol


def work_chunk(job):
    import itertools
    fam, alpha_name, length, tr, curve, first = job
    alpha = ALPHABETS[alpha_name]()
    out = {"fam": fam, "cases": [], "texts": [], "viol": [], "seen": set()}
    for rest in itertools.product(alpha, repeat=length - 1):
        ops = ic.instantiate([alpha[first]] + list(rest), curve)
        keep = len(out["cases"]) % SAMPLE_EVERY == 0
        inp, dig, text, viol = run_one(tr, curve, ops, keep, out["seen"],
                                       pk=ic.INTLIKE_PROBE_KEYS if alpha_name == "intlike" else None)
        if keep:
            out["texts"].append((len(out["cases"]), text))
        out["cases"].append((inp, dig))
        out["viol"] += viol[:5]
    return out


def run(ctx):
    import multiprocessing
    import lasio  # noqa: F401  (imported before forking)
    res = lib.Result()
    cases, texts = [], {}
    seen = set()
    hist = {}
    jobs = []
    for (fam, alpha_name, length, tr, curve) in families(ctx):
        for first in range(len(ALPHABETS[alpha_name]())):
            jobs.append((fam, alpha_name, length, tr, curve, first))
    with multiprocessing.get_context("fork").Pool(12) as pool:
        for out in pool.imap(work_chunk, jobs, chunksize=2):
            base = len(cases)
            cases += out["cases"]
            for (j, t) in out["texts"]:
                texts[base + j] = t
            hist[out["fam"]] = hist.get(out["fam"], 0) + len(out["cases"])
            seen |= out["seen"]
            res.oracle_violations += out["viol"]
    n_rand = 6000 if ctx.thorough else 600
    for j in range(n_rand):
        tr = ctx.rng.random() < 0.5
        curve = ctx.rng.random() < 0.3
        ops = ic.instantiate(ic.random_sequence(ctx.rng, 30, tr, curve), curve)
        inp, dig, text, viol = run_one(tr, curve, ops, j % 10 == 0, seen, state_probes=True)
        if text is not None:
            texts[len(cases)] = text
        cases.append((inp, dig))
        hist["random<=30"] = hist.get("random<=30", 0) + 1
        res.oracle_violations += viol
    n_typed = 0
    if TYPED_FIRST_CURVE:
        for j in range(2000 if ctx.thorough else 200):
            tr = ctx.rng.random() < 0.5
            ops = ic.instantiate(ic.random_sequence(ctx.rng, 8, tr, True), True, all_dtypes=True, start=ctx.rng.randrange(12))
            n_typed += 1
            hist["random<=8 every dtype (oracle only)"] = hist.get("random<=8 every dtype (oracle only)", 0) + 1
            sim = ic.Sim(tr, True)
            for o in ops:
                sim.apply(o)
            sig = signature(sim.s, True) + (tuple(ic.render_data(i.data).split(":")[0] for i in list.__iter__(sim.s)),)
            if sig not in seen:
                seen.add(sig)
                res.oracle_violations += check_ops(tr, True, ops)[:3]
    res.cases = len(cases) + n_typed
    res.oracle_violations.sort(key=lambda v: len(v["payload"]["ops"]))      # shortest history first
    if ctx.build.model_ok:
        mism, err = lib.run_coq_cases("c15", [], ic.RUN_DIGEST, cases, shard=1000)
        res.corr_error = err
        # a sample (and every digest mismatch) is compared as full text
        sample = sorted(texts)
        full = [(cases[i][0], texts[i]) for i in sample]
        for i in mism[:200]:
            if i not in texts:
                tr, curve, ops = decode_input(cases[i][0])
                pk, pi = decode_probes(cases[i][0])
                full.append((cases[i][0], ic.run_sequence(tr, curve, ops, mode="h", pk=pk, pi=pi)[1]))
                sample.append(i)
        m2, err2 = lib.run_coq_cases("c15f", [], ic.RUN_CASE, full, shard=100)
        res.corr_error = res.corr_error or err2
        for i in sorted(set(mism) | {sample[i] for i in m2}):
            tr, curve, ops = decode_input(cases[i][0])
            res.mismatches.append({"tr": tr, "curve": curve, "ops": ops})
        res.extra["full_text_cases"] = len(full)
    else:
        res.corr_error = "model not built"
    res.distinct_nontrivial = len(seen)
    res.rule = ("operation sequences over names {A,a,B,'',' ',A:1} x positions {0,1,-1,99(end),-99}: every sequence of "
                "length <= 2 over the full alphabet (%d ops: append, insert, delete by key/index, replace by key/index, "
                "value assignment, get(add=True), setattr, assign_duplicate_suffixes, rename), mid alphabet (%d ops) on "
                "curve sections%s, every sequence of length <= 3 over the integer-like family (mnemonics '1','0','-1' at positions "
                "they do not spell, int keys 0/1/-1 for get/del/set/in), random sequences up to length 30 (names incl. '1','0','-1'), x mnemonic_transforms on/off; heavy probes after "
                "the last step; distinct_nontrivial = distinct final states (original/session name lists x flag x "
                "item kind) on which the direct oracle was evaluated for all probe keys"
                % (len(ic.full_alphabet()), len(ic.mid_alphabet()), " and length 3" if ctx.thorough else ""))
    res.samples = [repr(decode_input(cases[i][0])[2]) for i in (0, len(cases) // 3, len(cases) // 2, len(cases) - 1)]
    res.histogram = hist
    return res


def replay(payload):
    v = check_ops(payload["tr"], payload["curve"], payload["ops"])
    mine = [x for x in v if x["payload"]["check"] == payload.get("check")] or v
    if mine:
        return True, mine[0]["what"]
    return False, "all C15 clauses hold after %s" % (payload["ops"],)


def search(ctx, res):
    for m in res.mismatches:
        for v in check_ops(m["tr"], m["curve"], m["ops"]):
            yield v
    full = ic.full_alphabet()
    for tr in (False, True):
        for curve in (False, True):
            for tm in ic.sequences(full, 2, exact=False):
                for v in check_ops(tr, curve, ic.instantiate(tm, curve)):
                    yield v
    for j in range(20000):
        tr = ctx.rng.random() < 0.5
        curve = ctx.rng.random() < 0.3
        ops = ic.instantiate(ic.random_sequence(ctx.rng, 30, tr, curve), curve)
        for v in check_ops(tr, curve, ops):
            yield v
