"""C03 — header metadata survives write -> read in every section and both versions."""
import io

import lib
import lasgen
import readmodel as rm
import writemodel as wm
from props import c08
from props import c01

PROP = "C03"
MODEL_TARGETS = ["Corr/WriteShow.vo"]
THEOREMS = ["C03_widths_cover", "C03_section_lines_unfold", "C03_format_is_layout", "C03_padding", "C03_line_roundtrip", "C03_stripped_line_roundtrip", "C03_curves_no_double_dot", "C03_order_tables_agree", "C03_item_roundtrip", "C03_expected_item_fields", "C03_unit_unbracketed", "C03_value_text", "C03_value_curves", "C03_value_number_string", "C03_value_roundtrip", "C03_value_int", "C03_expected_meta", "C03_section_roundtrip", "C03_blank_mnemonic_line", "C03_blank_name_parse", "C03_section_roundtrip_blanks", "C03_written_sections_read_back", "C03_section_ok_unfold", "C03_reads_back_unfold", "C03_other_text_unchanged", "C03_standardize_idem", "C03_standardize_cases", "C03_section_okb_ok", "C03_written_text_lines", "C03_written_blocks_unfold", "C03_written_blocks_wf", "C03_data_line_shape", "C03_written_sections_found", "C03_title_types", "C03_data_title_type", "C03_lines_from_items", "C03_find_read_back", "C03_reader_version", "C03_version_section_any_version", "C03_file_first_pass", "C03_file_roundtrip", "C03_file_hyps_unfold", "C03_in_class_unfold", "C03_text_hyps_unfold", "C03_header_read_back_unfold", "C03_null_read_unfold", "C03_wrap_ok_unfold", "C03_file_hypsb_ok", "C03_file_version_independent", "C03_written_state", "C03_set_wversion_unfold",
            "C03_strip_brackets_current", "C03_useful_current", "C03_compare_current",
            "C03_order_current", "C03_format_current", "C03_widths_current", "C03_layout_composition_current",
            "C03_written_version_items", "C03_roundtrip_vs_original", "C03_stdf_unfold", "C03_is_sss_unfold", "C03_other_read_unfold"]
ASSUMPTIONS = [
    "write(version=v) rewrites the VERS item (value v, description either the one read or the writer's standard text for v); every "
    "other ~Version item - WRAP, DLM and 0..4 further items from the conformant pools at any position - is compared in full; a DLM "
    "COMMA/TAB item comes back with the value SPACE: known finding dlm-rewritten, reported after every other comparison passed",
    "str(value) of a numeric header value is a plain decimal literal that num() maps back to an equal number (oracle; checked per case)",
    "str.upper/lower modelled for ASCII; generated mnemonics are ASCII",
    "the header-line grammar theorem C04_parse_all is used for the parse direction",
]

MNS = ["COMP", "WELL", "FLD", "X1", "A B", "GR_1", "a", "Kb", "RUN-2", "Q(1)", "SRVC", "DATE", "LOC 2"]
UNITS = ["", "M", "FT", "G/CM3", "US/M", "OHMM", "%", "DEGC", "K.M", "hh:mm", "m/s2", "1/M", "M3", "lbf"]
VALS = ["", "ANY OIL COMPANY INC.", "WELL-1", "15_9", "A9-16-49-20W3M", "hello world", "x (y) [z]", "12-34", "\"quoted\"", "it's",
        "12.5", "100", "-3", "1e3", "007", "3.", ".5", "a.b", "e.g. this", "1000 lbf", "0", "0.0", "12,5", "SEC 12,13 TWP 4", "1,250,000", "1,5,2", "-999.25", "x" * 45,
        "{braces}", "100 2000", "N/A"]
DESCS = ["", "COMPANY", "1  DEPTH", "x (y)", "log #2", "a-b", "ends.", "\"q\"", "{F}", "v.2 of it", "d" * 50, "12.5", "007"]
CURVE_VALS = ["", "45 310 01 00", "7 350 01 00", "API", "x.y", "12"]


def conformant_item(it, sect):
    m, u, v, d = it
    if "." in m or ":" in m or m != m.strip():
        return False
    if any(c.isspace() for c in u) or ".." in u or u.isdigit() or u.startswith(".") or u.endswith("."):
        return False
    if len(u) >= 2 and ((u[0] == "[" and u[-1] == "]") or (u[0] == "(" and u[-1] == ")")):
        return False
    if ":" in v or ":" in d or v != v.strip() or d != d.strip():
        return False
    if sect == "C" and ".." in v:
        return False
    if m.strip() == "" and ("." in u or "." in v or "." in d):
        return False
    if m.strip() == "" and sect != "C" and c08.expected_by_statement(v)[0] == "float":
        return False               # str() of a float has a period: the written line would have a further period
    return True


def gen_items(rng, sect, n):
    out = []
    for i in range(n):
        m = rng.choice(V_MNS if sect == "V" else MNS)
        if rng.random() < 0.08:
            m = ""
        if rng.random() < 0.1 and out:
            m = out[rng.randrange(len(out))][0]       # duplicate
        u = rng.choice(UNITS)
        v = rng.choice(CURVE_VALS if sect == "C" else VALS)
        d = rng.choice(DESCS)
        if m.strip() == "":
            u = rng.choice(["", "M"])
            v = v.replace(".", "")
            d = d.replace(".", "")
        it = (m, u, v, d)
        if conformant_item(it, sect):
            out.append(it)
    # make one item in turn the widest (value, unit or mnemonic)
    if out and rng.random() < 0.6:
        k = rng.randrange(len(out))
        m, u, v, d = out[k]
        which = rng.choice(["m", "u", "v"])
        if which == "m" and m.strip():
            m = m + "_LONGMNEMONIC"
        elif which == "u":
            u = "VERYLONGUNIT/X"
        elif sect != "C":
            v = (v + " widest value " * 3).strip()
        if m.strip() == "":
            u, v, d = (u if "." not in u else "M"), v.replace(".", ""), d.replace(".", "")
        if conformant_item((m, u, v, d), sect):
            out[k] = (m, u, v, d)
    return out


# ~Version items whose DLM says COMMA/TAB come back as DLM SPACE (lasio fix 4749e0c: the writer always emits blank-delimited data
# and the written file declares the delimiter it is written with).  The statement does not list that difference: it is the known
# finding "dlm-rewritten" (corpus/C03_dlm_rewritten.json).  The class is generated; the oracle reports it under the message prefix
# "DLM rewritten:" and only when EVERY other comparison on the same input passed (so any other difference is reported first).
DLM_REWRITTEN = True
V_MNS = ["CREA", "PROD", "X1", "A B", "GR_1", "a", "Kb", "RUN-2", "Q(1)", "DATE", "LOC 2", "COMP", "CREA"]


def version_items(s):
    """the items of ~Version in file order: VERS, WRAP, (DLM) with s.v_extra = [(position, item)] inserted as lasgen.render does"""
    out = [("VERS", "", s.version, "CWLS LOG ASCII STANDARD"), ("WRAP", "", s.wrap, "wrap mode")]
    if s.dlm:
        out.append(("DLM", "", s.dlm, "delimiter"))
    for pos, it in reversed(sorted(getattr(s, "v_extra", []), key=lambda x: x[0])):
        out.insert(min(pos, len(out)), tuple(it))
    return out


def set_v_extra(s, v_extra):
    s.v_extra = [(p, tuple(it)) for p, it in v_extra]
    s.extra_lines = dict(s.extra_lines)
    s.extra_lines["V"] = [(p, lasgen.fmt_item(*it)) for p, it in s.v_extra]


def gen_v_extra(rng):
    n = rng.choice([0, 0, 1, 1, 2, 3, 4])
    items = []
    for it in gen_items(rng, "V", n):
        m = it[0]
        if m.upper() in ("VERS", "WRAP", "DLM"):
            continue
        items.append(it)
    return sorted([(rng.randint(0, 3), it) for it in items], key=lambda x: x[0])


def gen_case(rng):
    s = lasgen.Spec()
    s.version = "2.0"
    s.null = "-999.25"
    s.dlm = rng.choice([None, None, None, "SPACE", "SPACE"] + (["COMMA", "TAB"] if DLM_REWRITTEN else []))
    set_v_extra(s, gen_v_extra(rng))
    big = rng.random() < 0.3
    s.well = [("STRT", rng.choice(["M", "FT", ""]), "1.0", rng.choice(["START", "S"])), ("STOP", "M", "3.0", rng.choice(["STOP", "E"])),
              ("STEP", "M", "1.0", "STEP")] + gen_items(rng, "W", 0 if big else rng.randint(0, 5))
    if rng.random() < 0.3:
        s.well.append((rng.choice(["UWI", "API", "uwi"]), "", rng.choice(["100091604920W300", "007", "0012"]), "ID"))
    if rng.random() < 0.2:
        # round 7 (C03_5): an empty value, no unit and a description that is a numeric literal -- in a 1.2 file the line reads
        # "M .  1985 :" and a reader that takes a bare number left of an empty right-hand side for the value swaps the fields
        it = (rng.choice(["YEAR", "RUNNO", "X1"]), "", "", rng.choice(["1985", "12.5", "007", "-3", "1e3"]))
        if conformant_item(it, "W"):
            s.well.append(it)
    if rng.random() < 0.25:
        # a duplicated special mnemonic (its value/description order differs from the default in 1.2)
        s.well.append((rng.choice(["NULL", "null", "NULL"]), "", rng.choice(["-9999", "-999.25", "0"]), "second null value"))
    nc = rng.randint(1, 4)
    s.curves = [("DEPT", "M", rng.choice(CURVE_VALS), "1  DEPTH")] + gen_items(rng, "C", nc - 1)
    nc = len(s.curves)
    s.params = gen_items(rng, "P", rng.randint(0, 5))
    s.other = [rng.choice(["Note one.", "second note: with colon", "   indented text  ", "x.y : z", "~not a title? no"]) for _ in range(rng.randint(0, 3))]
    s.other = [o for o in s.other if not o.strip().startswith("~")]
    base = 10250.5 if big else 1.0
    s.rows = [[str(base + i)] + [str(10 * i + j) for j in range(1, nc)] for i in range(3)]
    version = rng.choice([1.2, 2])
    mcase = rng.choice(["preserve", "upper", "lower"])
    return s, version, mcase


def case_map(m, mcase):
    return m.upper() if mcase == "upper" else m.lower() if mcase == "lower" else m


def expect_items(items, sect, mcase, idx_unit=None):
    out = []
    for (m, u, v, d) in items:
        if sect == "C":
            ev = ("str", v)
        elif m.upper() in ("API", "UWI") and sect != "P":
            ev = ("str", v)
        else:
            ev = c08.expected_by_statement(v)
        if sect in ("W", "P") and u and ev == ("str", ""):
            ev = ("int", 0)                                # documented: empty value with a unit -> 0
        out.append((case_map(m, mcase), u, ev, d))
    return out


def got_items(sec):
    return [(it.original_mnemonic, it.unit, c08.classify(it.value), it.descr) for it in sec]


def items_equal(got, exp, skip=()):
    if len(got) != len(exp):
        return False
    for g, e in zip(got, exp):
        if g[0] != e[0] or g[3] != e[3]:
            return False
        if g[0].upper() in skip:
            continue
        if g[1] != e[1] or not c08.same(g[2], e[2]):
            return False
    return True


def oracle(s, version, mcase, text0):
    import lasio
    try:
        las = lasio.read(text0, mnemonic_case="preserve")
        buf = io.StringIO()
        las.write(buf, version=version)
        t1 = buf.getvalue()
        l2 = lasio.read(t1, mnemonic_case=mcase)
    except Exception as e:
        return "write->read raised %s: %s" % (type(e).__name__, str(e)[-120:])
    w = [("NULL", "", s.null, "NULL VALUE")] + list(s.well)
    if not items_equal(got_items(l2.well), expect_items(w, "W", mcase), skip=("STRT", "STOP", "STEP")):
        return "~Well differs: got %r expected %r" % (got_items(l2.well), expect_items(w, "W", mcase))
    # the documented differences for STRT/STOP/STEP: values refreshed from the data (numbers), units aligned
    # with the index curve's unit (or STRT's own unit when the curve has none)
    idx_unit = s.curves[0][1] or [x for x in s.well if x[0] == "STRT"][0][1]
    for it in l2.well:
        if it.original_mnemonic.upper() in ("STRT", "STOP", "STEP"):
            if it.unit != idx_unit:
                return "%s unit came back as %r, expected the index unit %r" % (it.original_mnemonic, it.unit, idx_unit)
            if c08.classify(it.value)[0] not in ("int", "float"):
                return "%s value came back as %r, expected a number" % (it.original_mnemonic, it.value)
    ec = expect_items(s.curves, "C", mcase)
    if not items_equal(got_items(l2.curves), ec):
        return "~Curves differs: got %r expected %r" % (got_items(l2.curves), ec)
    if not items_equal(got_items(l2.params), expect_items(s.params, "P", mcase)):
        return "~Parameter differs: got %r expected %r" % (got_items(l2.params), expect_items(s.params, "P", mcase))
    dlm_note = []
    bad = version_oracle(s, version, mcase, got_items(l2.version), dlm_note)
    if bad:
        return bad
    if l2.other != "\n".join(x.strip() for x in s.other):
        return "~Other differs: %r vs %r" % (l2.other, s.other)
    if dlm_note:
        return dlm_note[0]
    return None


VERS_STD = {1.2: "CWLS LOG ASCII STANDARD - VERSION 1.2", 2: "CWLS log ASCII Standard -VERSION 2.0"}


def version_oracle(s, version, mcase, gv, dlm_note):
    """the WHOLE ~Version section after write(version=v) -> read; a changed VALUE of a DLM COMMA/TAB item is appended to dlm_note"""
    vi = version_items(s)
    ev = expect_items(vi, "V", mcase)
    if len(gv) != len(ev):
        return "~Version differs: %d items came back, %d were written: got %r expected %r" % (len(gv), len(ev), gv, ev)
    for g, e, it in zip(gv, ev, vi):
        if it[0] == "VERS":
            if g[0] != e[0] or g[1] != "" or not c08.same(g[2], ("float", float(version))) or g[3] not in (it[3], VERS_STD[version]):
                return "~Version differs: VERS came back as %r after write(version=%r)" % (g, version)
            continue
        if it[0] == "DLM" and it[2] in ("COMMA", "TAB"):
            # everything but the value is compared here; the value is judged last (see oracle)
            if g[0] != e[0] or g[1] != e[1] or g[3] != e[3]:
                return "~Version differs: DLM came back as %r" % (g,)
            if not c08.same(g[2], e[2]):
                dlm_note.append("DLM rewritten: ~Version DLM %r came back as %r" % (it[2], g[2][1]))
            continue
        if g[0] != e[0] or g[1] != e[1] or g[3] != e[3] or not c08.same(g[2], e[2]):
            return "~Version differs: item %r came back as %r (whole section: got %r expected %r)" % (e, g, gv, ev)
    return None


def finding_of(payload):
    """'dlm-rewritten' only when the input declares DLM COMMA/TAB and the oracle passes once the DLM item's VALUE is left out
    of the comparison (the oracle emits the "DLM rewritten:" message only after every other comparison passed)."""
    try:
        if payload["spec"].get("dlm") not in ("COMMA", "TAB"):
            return None
        bad, what = replay(payload)
        if bad and what.startswith("DLM rewritten:"):
            return "dlm-rewritten"
    except Exception:
        pass
    return None


def spec_payload(s):
    return {"well": s.well, "curves": s.curves, "params": s.params, "other": s.other, "null": s.null, "dlm": s.dlm,
            "v_extra": [[p, list(it)] for p, it in getattr(s, "v_extra", [])]}


def run(ctx):
    res = lib.Result()
    rng = ctx.rng
    n = 2500 if ctx.thorough else 150
    cases, meta, kinds = [], [], set()
    hist = {"v1.2": 0, "upper": 0, "lower": 0, "blank_mnemonic": 0, "duplicate_mnemonic": 0, "empty_value_with_unit": 0,
            "extra_version_items": 0, "files_with_extra_version_items": 0, "extra_version_item_before_VERS": 0, "dlm_item": 0,
            "dlm_comma_tab": 0}
    for _ in range(n):
        s, version, mcase = gen_case(rng)
        text0 = lasgen.render(s)[0]
        bad = oracle(s, version, mcase, text0)
        if bad:
            res.oracle_violations.append({"payload": {"text": text0, "version": version, "mcase": mcase, "spec": spec_payload(s)},
                                          "what": bad})
        ops = [("R", {"mnemonic_case": "preserve"}), ("W", {"version": version}), ("R", {"mnemonic_case": mcase})]
        c, r = wm.coq_case(text0, ops)
        cases.append(c)
        meta.append((text0, ops))
        vx = [it for _, it in s.v_extra]
        allit = s.well + s.curves + s.params + vx
        hist["extra_version_items"] += len(vx)
        hist["files_with_extra_version_items"] += bool(vx)
        hist["extra_version_item_before_VERS"] += any(p == 0 for p, _ in s.v_extra)
        hist["dlm_item"] += s.dlm is not None
        hist["dlm_comma_tab"] += s.dlm in ("COMMA", "TAB")
        kinds.add((version, mcase, len(s.well), len(s.curves), len(s.params), len(s.other), len(vx), s.dlm,
                   any(i[0].strip() == "" for i in allit), len({i[0] for i in allit}) != len(allit)))
        hist["v1.2"] += version == 1.2
        hist["upper"] += mcase == "upper"
        hist["lower"] += mcase == "lower"
        hist["blank_mnemonic"] += any(i[0].strip() == "" for i in allit)
        hist["duplicate_mnemonic"] += len({i[0] for i in allit}) != len(allit)
        hist["empty_value_with_unit"] += any(i[1] and not i[2] for i in s.well + s.params)
    if ctx.build.model_ok:
        mism, err = lib.run_coq_cases("c03", [], wm.RUN_PIPE, cases, shard=10)
        res.corr_error = err
        for i in mism:
            res.mismatches.append({"text": meta[i][0], "ops": repr(meta[i][1])})
        if not err:
            # audit D12: how many generated cases lie inside the theorem domains (see c01.RUN_DOMAIN)
            import time
            t_dom = time.time()
            dcases = cases[:(c01.DOMAIN_SAMPLE * 4 if ctx.thorough else c01.DOMAIN_SAMPLE)]
            dom, derr = c01.domain_counts("c03dom", dcases, 2)
            res.extra["domain_eval_s"] = round(time.time() - t_dom, 1)
            if derr:
                res.corr_error = "domain: " + derr
            else:
                hist["theorem_domain_evaluated_on"] = len(dcases)
                hist["in_domain_of_C01_file_roundtrip_checked"] = dom["F"]
                hist["in_domain_of_C03_file_roundtrip_only"] = dom["H"]
                hist["outside_both_theorem_domains"] = dom["outside"]
    else:
        res.corr_error = "model not built"
    res.cases = len(cases)
    res.distinct_nontrivial = len(kinds)
    res.rule = ("item lists for ~W/~C/~P (0..6 items, duplicate and blank mnemonics, each item in turn the widest) and 0..4 items in "
                "~Version besides VERS/WRAP/(DLM SPACE|COMMA|TAB, data delimited accordingly) at any position, the whole ~Version section compared, with fields from "
                "the conformant alphabet (punctuation, quotes, brackets, empty fields, numeric-looking and long text), ~Other text; "
                "read, written as 1.2 or 2.0, read back with preserve/upper/lower; non-trivial = distinct (version, case, section "
                "sizes, blank?, duplicate?)")
    res.samples = [meta[0][0][:500]]
    res.histogram = hist
    return res


def replay(payload):
    s = lasgen.Spec()
    sp = payload["spec"]
    s.well = [tuple(x) for x in sp["well"]]
    s.curves = [tuple(x) for x in sp["curves"]]
    s.params = [tuple(x) for x in sp["params"]]
    s.other = sp["other"]
    s.null = sp["null"]
    s.dlm = sp.get("dlm")
    set_v_extra(s, [(p, tuple(it)) for p, it in sp.get("v_extra", [])])
    bad = oracle(s, payload["version"], payload["mcase"], payload["text"])
    return bad is not None, bad or "ok"


def search(ctx, res):
    import random
    rng = random.Random(ctx.seed + 31)
    for _ in range(8000):
        s, version, mcase = gen_case(rng)
        text0 = lasgen.render(s)[0]
        bad = oracle(s, version, mcase, text0)
        if bad:
            yield {"payload": {"text": text0, "version": version, "mcase": mcase, "spec": spec_payload(s)}, "what": bad}
            return
