"""C06 — exactly the NULL-valued samples of non-index curves become NaN."""
import io
import math
import struct

import numpy as np

import lib
import lasgen
import readmodel as rm
from props import c08

PROP = "C06"
MODEL_TARGETS = ["Corr/ReadShow.vo"]
THEOREMS = ["C06_iff", "C06_iff_cellwise", "C06_index_kept", "C06_text_untouched", "C06_none_policy", "C06_columnwise", "C06_length", "C06_null_bind_current",
            "C06_read_null", "C06_read_cell_iff", "C06_nulleq_numeric", "C06_null_not_numeric", "C06_read_null_not_numeric"]
ASSUMPTIONS = [
    "the ~Well NULL value is a number exactly when its text is a plain decimal literal ('.' or ',' as the mark; C08): a file without "
    "a NULL item or with a textual NULL ('N/A') has no NULL value and no sample of it becomes NaN",
    "a ~Well section with two NULL items has no single NULL value; lasio then nulls nothing.  The reading-independent part is always checked (a sample equal to neither value stays, "
    "policy 'none' changes nothing, index and text columns untouched); 'both items numerically equal => samples equal to it become "
    "NaN' is checked only under NULL_TWICE_STRICT (lasio applies no NULL at all there; reported to main)",
    "a file whose INDEX column is text is judged on the read clauses; write() of such an object raises TypeError "
    "(STRT/STOP/STEP are computed from a numeric index), the write->read cycle is attempted for it only under TEXT_INDEX_WRITE",
    "numeric equality of a sample and NULL is IEEE == on the doubles CPython assigns to the two texts (oracle numeq)",
    "on writing, NaN -> str(NULL) is the writer's rule (C01/C16 model); the write->read cycle is checked on the implementation: "
    "NaN positions equal after write->read, and the token written at each NaN position is numerically the header NULL value",
]

NULLS = [("-999.25", ["-999.25", "-999.2500", "-9.9925E2", "-99925e-2"]),
         ("-9999", ["-9999", "-9999.0", "-9.999e3", "-9999.00"]),
         ("0", ["0", "0.0", "-0", "0e5", "-0.0"]),
         ("999", ["999", "999.0", "+999", "9.99E+2"]),
         ("1e30", ["1e30", "1E+30", "1000000000000000000000000000000"]),
         ("-9.9925E2", ["-999.25", "-9.9925E2"]),
         ("9999.25", ["9999.25", "9999.250"]),
         # NULL values that need more than six significant digits / a large magnitude / an exponent spelling: the writer must
         # emit a NaN as the FULL value (str(NULL)), a shortened text (%g, %.2f ...) is a different number
         ("-99999.25", ["-99999.25", "-99999.250", "-9.999925E4"]),
         ("-999.2501", ["-999.2501", "-999.25010", "-9.992501e2"]),
         ("-9.9999925E4", ["-99999.925", "-9.9999925E4", "-99999.9250"]),
         ("1234567.5", ["1234567.5", "1.2345675e6", "+1234567.50"]),
         ("-999.250001", ["-999.250001", "-9.99250001E2"]),
         ("-1.0000001e30", ["-1.0000001e30", "-1.0000001E+30", "-10000001e23"]),
         ("-2147483648.5", ["-2147483648.5", "-2.1474836485e9"]),
         ("0.000123456789", ["0.000123456789", "1.23456789e-4"])]
LONG_NULLS = {"-99999.25", "-999.2501", "-9.9999925E4", "1234567.5", "-999.250001", "-1.0000001e30", "-2147483648.5", "0.000123456789"}


TEXT_NULLS = ["N/A", "null", "-", "15_9", "1e", "NONE", "-999.25.0"]
COMMA_NULLS = [("-999,25", "-999.25"), ("0,0", "0"), ("-9999,0", "-9999"), ("999,0", "999")]
NULL_TWICE_STRICT = False       # see ASSUMPTIONS; messages carry the prefix "NULL item twice:"
TEXT_INDEX_WRITE = False        # see ASSUMPTIONS; messages carry the prefix "text index:"


def null_number(text):
    """the number a NULL item's text denotes, or None (no item / not a plain decimal literal)"""
    if text is None:
        return None
    k = c08.expected_by_statement(text)
    return float(k[1]) if k[0] in ("int", "float") else None


def nextafter(x, up):
    return float(np.nextafter(x, math.inf if up else -math.inf))


def gen_case(rng):
    s = lasgen.Spec()
    s.version = rng.choice(["1.2", "2.0"])
    null, spellings = rng.choice(NULLS)
    nv = float(null)
    nc = rng.randint(1, 5)
    nr = rng.choice([1, 2, 4, 8])
    text_col = rng.choice([None, None, None] + list(range(1, nc))) if nc > 1 else None
    if nc > 1 and rng.random() < 0.08:
        text_col = 0                                                    # a text column as the index
    ndecl = nc if rng.random() < 0.75 else rng.randint(0, nc - 1)       # surplus columns become unnamed curves: NULL applies to them too
    s.curves = [("C%d" % j if j else "DEPT", "", "", "") for j in range(ndecl)]
    s.null = null
    s.well = [("STRT", "M", "1.0", "START"), ("STOP", "M", "2.0", "STOP"), ("STEP", "M", "0.5", "STEP")]
    # how the file states its NULL: a number (as before) | no NULL item | text | decimal comma | two NULL items
    mode = rng.choice(["num"] * 7 + ["none", "none", "text", "text", "comma", "twice", "twice"])
    s._null2 = None
    if mode == "none":
        s.null = None
    elif mode == "text":
        s.null = rng.choice(TEXT_NULLS)
    elif mode == "comma":
        s.null, null = rng.choice(COMMA_NULLS)
        spellings = [sp for n_, sp in NULLS if n_ == null][0]
        nv = float(null)
    elif mode == "twice":
        other, osp = rng.choice(NULLS)
        s._null2 = rng.choice([null, rng.choice(spellings), other, other])
        if float(s._null2) != nv:
            spellings = spellings + osp[:2]
        pos = rng.randint(0, len(s.well))
        s.well = s.well[:pos] + [("NULL", "", s._null2, "second NULL item")] + s.well[pos:]
    s._mode = mode
    rows = []
    for i in range(nr):
        row = []
        for j in range(nc):
            r = rng.random()
            if j == text_col:
                row.append(rng.choice(["abc", "x-y", "pick", "N/A"]) if (i > 0 or rng.random() < 0.85) else rng.choice(spellings))
            elif r < 0.3:
                row.append(rng.choice(spellings))
            elif r < 0.45:
                near = rng.choice([nextafter(nv, True), nextafter(nv, False), nv + 1e-6, nv - 1e-6, -nv if nv else 1e-300])
                row.append(repr(near))
            else:
                row.append(lasgen.num_token(rng))
        rows.append(row)
    s.rows = rows
    s.wrap = "YES" if rng.random() < 0.25 else "NO"
    if s.wrap == "NO":
        s.dlm = rng.choice([None, None, None, None, "SPACE", "COMMA", "COMMA", "TAB"])
    if s.wrap == "YES":
        # a wrapped file must declare all its curves (a depth step is "declared count" values)
        s.curves = [("C%d" % j if j else "DEPT", "", "", "") for j in range(nc)]
    s._text_col = text_col
    return s


def render(s, rng):
    if s.wrap == "NO":
        return lasgen.render(s)[0]
    rows = s.rows
    k = rng.choice([1, 2, 3])
    try:
        s.rows = []
        text, _ = lasgen.render(s)
    finally:
        s.rows = rows
    lines = []
    for row in rows:
        for a in range(0, len(row), k):
            lines.append(" " + " ".join(row[a:a + k]))
    return text + "\n".join(lines) + "\n"


def tofloat(t):
    try:
        return float(np.float64(t))
    except ValueError:
        return None


def oracle(s, text, engine, policy):
    import lasio
    try:
        las = lasio.read(text, engine=engine, null_policy=policy)
    except Exception as e:
        return "read raised %s: %s" % (type(e).__name__, str(e)[-100:])
    nv = null_number(s.null)              # None: the file has no (numeric) NULL value
    nv2 = null_number(getattr(s, "_null2", None))
    twice = getattr(s, "_null2", None) is not None
    nr, nc = len(s.rows), len(s.rows[0])
    if len(las.curves) != nc:
        return "curve count %d != %d" % (len(las.curves), nc)
    for j in range(nc):
        col = las.curves[j].data
        if len(col) != nr:
            return "curve %d length %d != %d" % (j, len(col), nr)
        toks = [s.rows[i][j] for i in range(nr)]
        vals = [tofloat(t) for t in toks]
        is_text = any(v is None for v in vals)
        for i in range(nr):
            g = col[i]
            if is_text:
                # text columns untouched: never NaN; numeric-looking entries stay what float() makes of them
                if isinstance(g, float) and math.isnan(g):
                    return "text column cell (%d,%d) became NaN" % (i, j)
                continue
            e = vals[i]
            should_nan = policy == "strict" and j >= 1 and nv is not None and e == nv
            if twice:
                # two NULL items: a sample equal to neither value stays; with both items numerically equal (strong reading,
                # NULL_TWICE_STRICT) the samples equal to it become NaN
                if policy == "strict" and j >= 1 and (e == nv or e == nv2) and nv is not None:
                    if NULL_TWICE_STRICT and nv == nv2 and not (isinstance(g, float) and math.isnan(g)):
                        return "NULL item twice: cell (%d,%d) token %r equals both NULL items (%r, %r) but came back %r" % (
                            i, j, toks[i], s.null, s._null2, g)
                    if isinstance(g, float) and (math.isnan(g) or g == e):
                        continue
                should_nan = False
            if should_nan:
                if not (isinstance(g, float) and math.isnan(g)):
                    return "cell (%d,%d) token %r equals NULL %r but came back %r (policy %s)" % (i, j, toks[i], s.null, g, policy)
            else:
                if not (isinstance(g, float) and (g == e) and not math.isnan(g)):
                    return "cell (%d,%d) token %r (NULL %r, policy %s) came back %r, expected %r" % (i, j, toks[i], s.null, policy, g, e)
    # write -> read keeps the NaN positions
    index_is_text = any(tofloat(s.rows[i][0]) is None for i in range(nr))
    if policy == "strict" and index_is_text and TEXT_INDEX_WRITE:
        try:
            las.write(io.StringIO(), version=2.0)
        except Exception as e:
            return "text index: write raised %s: %s" % (type(e).__name__, str(e)[-100:])
    if policy == "strict" and not index_is_text:
        try:
            buf = io.StringIO()
            las.write(buf, version=2.0)
            las2 = lasio.read(buf.getvalue(), engine=engine)
            # a finite sample whose printed text is numerically the NULL value IS the null marker on
            # disk (inherent to a finite-precision format): such cells may come back NaN or not
            def printed_null(x, j):
                return j >= 1 and isinstance(x, float) and not math.isnan(x) and float("%.5f" % x) in (nv, nv2)
            for j, (c1, c2) in enumerate(zip(las.curves, las2.curves)):
                for i, (x, y) in enumerate(zip(c1.data, c2.data)):
                    if printed_null(x, j):
                        continue
                    xn = isinstance(x, float) and math.isnan(x)
                    yn = isinstance(y, float) and math.isnan(y)
                    if xn != yn:
                        return "NaN position (%d,%d) changed over write->read: %r -> %r (NULL %s)" % (i, j, x, y, s.null)
            # every NaN is emitted as the NULL value (never as the word 'nan')
            body = buf.getvalue().split("~A", 1)[1].split("\n")[1:]
            toks = [t for ln in body for t in ln.split()]
            # ... as the NULL VALUE: the text written at a NaN position is numerically the header NULL (the file is written
            # unwrapped, one line per row, one token per curve; text columns of the generator hold no blanks)
            grid = [ln.split() for ln in body if ln.strip()]
            if nv is not None and len(grid) == nr and all(len(g_) == nc for g_ in grid):
                for j, c1 in enumerate(las.curves):
                    for i, x in enumerate(c1.data):
                        if isinstance(x, float) and math.isnan(x) and tofloat(grid[i][j]) not in (nv, nv2):
                            return "NaN at (%d,%d) was written as %r, which is not the NULL value %s" % (i, j, grid[i][j], s.null)
            if any(t.lower() in ("nan", "-nan") for t in toks):
                return "a NaN sample was written as the text %r instead of the NULL value %s" % ("nan", s.null)
            if nv is None and any(isinstance(y, float) and math.isnan(y) for c2 in las2.curves for y in c2.data):
                return "a file without a numeric NULL value has NaN samples after write->read"
        except Exception as e:
            return "write->read raised %s: %s" % (type(e).__name__, str(e)[-100:])
    return None


def run(ctx):
    res = lib.Result()
    rng = ctx.rng
    n = 4000 if ctx.thorough else 300
    cases, meta, kinds = [], [], set()
    hist = {"wrapped": 0, "text_column": 0, "null_in_index": 0, "null_cells": 0, "near_null_cells": 0,
            "no_null_item": 0, "null_is_text": 0, "null_decimal_comma": 0, "null_item_twice": 0, "null_item_twice_same_value": 0,
            "dlm_comma": 0, "dlm_tab": 0, "text_index": 0, "long_null_value": 0, "long_null_value_with_null_cells_off_index": 0}
    for _ in range(n):
        s = gen_case(rng)
        text = render(s, rng)
        for e in ("numpy", "normal"):
            for pol in ("strict", "none"):
                bad = oracle(s, text, e, pol)
                if bad:
                    res.oracle_violations.append({"payload": {"text": text, "engine": e, "policy": pol, "null": s.null,
                                                              "null2": s._null2, "rows": s.rows}, "what": bad})
                exp, las = rm.impl_read(text, engine=e, null_policy=pol)
                cases.append(rm.coq_case(text, exp, engine=e, null_policy=pol))
                meta.append((text, e, pol))
        nv = null_number(s.null)
        nulls = sum(1 for row in s.rows for t in row if nv is not None and tofloat(t) == nv)
        kinds.add((s.null, s._null2, s.dlm, s.wrap, s._text_col is not None, s._text_col == 0, min(nulls, 3),
                   nv is not None and tofloat(s.rows[0][0]) == nv))
        hist["wrapped"] += s.wrap == "YES"
        if s._mode == "num" and s.null in LONG_NULLS:
            hist["long_null_value"] += 1
            hist["long_null_value_with_null_cells_off_index"] += any(tofloat(t) == nv for row in s.rows for t in row[1:])
        hist["text_column"] += s._text_col is not None
        hist["null_in_index"] += any(nv is not None and tofloat(row[0]) == nv for row in s.rows)
        hist["null_cells"] += nulls
        hist["no_null_item"] += s._mode == "none"
        hist["null_is_text"] += s._mode == "text"
        hist["null_decimal_comma"] += s._mode == "comma"
        hist["null_item_twice"] += s._mode == "twice"
        hist["null_item_twice_same_value"] += s._mode == "twice" and null_number(s._null2) == nv
        hist["dlm_comma"] += s.dlm == "COMMA"
        hist["dlm_tab"] += s.dlm == "TAB"
        hist["text_index"] += s._text_col == 0
    if ctx.build.model_ok:
        mism, err = lib.run_coq_cases("c06", [], rm.RUN_READ, cases, shard=150)
        res.corr_error = err
        for i in mism:
            res.mismatches.append({"text": meta[i][0], "engine": meta[i][1], "policy": meta[i][2]})
    else:
        res.corr_error = "model not built"
    res.cases = len(cases)
    res.distinct_nontrivial = len(kinds)
    res.rule = ("files whose NULL is one of {-999.25,-9999,0,999,1e30,-9.9925E2,9999.25} or a value needing more than six significant "
                "digits (-99999.25, -999.2501, -9.9999925E4, 1234567.5, -1.0000001e30, ...), or absent, textual (N/A, ...), spelled with a "
                "decimal comma (-999,25) or given by TWO NULL items; data blank-, COMMA- or TAB-delimited; optional text column, also "
                "as the index; cells are NULL in several spellings, "
                "near-NULL (+-1 ulp, +-1e-6, sign flipped) or ordinary numbers, in every column incl. the index, optional text "
                "column, wrapped and unwrapped, both engines x {strict, none}; then write->read of the result; non-trivial = "
                "distinct (NULL, wrap, text column?, #NULL cells (capped), NULL in index?)")
    res.samples = [meta[0][0][-200:], meta[-1][0][-200:]]
    res.histogram = hist
    return res


def replay(payload):
    s = lasgen.Spec()
    s.null = payload["null"]
    s._null2 = payload.get("null2")
    s.rows = payload["rows"]
    bad = oracle(s, payload["text"], payload["engine"], payload["policy"])
    return bad is not None, bad or "ok"


def search(ctx, res):
    import random
    rng = random.Random(ctx.seed + 13)
    for _ in range(20000):
        s = gen_case(rng)
        text = render(s, rng)
        for e in ("numpy", "normal"):
            for pol in ("strict", "none"):
                bad = oracle(s, text, e, pol)
                if bad:
                    yield {"payload": {"text": text, "engine": e, "policy": pol, "null": s.null, "null2": s._null2, "rows": s.rows},
                           "what": bad}
                    return
