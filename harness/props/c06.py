"""C06 — exactly the NULL-valued samples of non-index curves become NaN."""
import io
import math
import struct

import numpy as np

import lib
import lasgen
import readmodel as rm

PROP = "C06"
MODEL_TARGETS = ["Corr/ReadShow.vo"]
THEOREMS = ["C06_iff", "C06_iff_cellwise", "C06_index_kept", "C06_text_untouched", "C06_none_policy", "C06_columnwise", "C06_length", "C06_null_bind_current"]
ASSUMPTIONS = [
    "numeric equality of a sample and NULL is IEEE == on the doubles CPython assigns to the two texts (oracle numeq)",
    "on writing, NaN -> str(NULL) is the writer's rule (C01/C16 model); the write->read cycle is checked on the implementation",
]

NULLS = [("-999.25", ["-999.25", "-999.2500", "-9.9925E2", "-99925e-2"]),
         ("-9999", ["-9999", "-9999.0", "-9.999e3", "-9999.00"]),
         ("0", ["0", "0.0", "-0", "0e5", "-0.0"]),
         ("999", ["999", "999.0", "+999", "9.99E+2"]),
         ("1e30", ["1e30", "1E+30", "1000000000000000000000000000000"]),
         ("-9.9925E2", ["-999.25", "-9.9925E2"]),
         ("9999.25", ["9999.25", "9999.250"])]


def nextafter(x, up):
    return float(np.nextafter(x, math.inf if up else -math.inf))


def gen_case(rng):
    s = lasgen.Spec()
    s.version = rng.choice(["1.2", "2.0"])
    null, spellings = rng.choice(NULLS)
    nv = float(null)
    nc = rng.randint(1, 5)
    nr = rng.choice([1, 2, 4, 8])
    text_col = rng.choice([None, None, None] + list(range(1, nc))) if nc > 1 else None
    ndecl = nc if rng.random() < 0.75 else rng.randint(0, nc - 1)       # surplus columns become unnamed curves: NULL applies to them too
    s.curves = [("C%d" % j if j else "DEPT", "", "", "") for j in range(ndecl)]
    s.null = null
    s.well = [("STRT", "M", "1.0", "START"), ("STOP", "M", "2.0", "STOP"), ("STEP", "M", "0.5", "STEP")]
    rows = []
    for i in range(nr):
        row = []
        for j in range(nc):
            r = rng.random()
            if j == text_col:
                row.append(rng.choice(["abc", "x-y", "pick", "N/A"]) if (i > 0 or rng.random() < 0.85) else rng.choice(spellings))
            elif r < 0.3:
                row.append(rng.choice(spellings))
            elif r < 0.45:
                near = rng.choice([nextafter(nv, True), nextafter(nv, False), nv + 1e-6, nv - 1e-6, -nv if nv else 1e-300])
                row.append(repr(near))
            else:
                row.append(lasgen.num_token(rng))
        rows.append(row)
    s.rows = rows
    s.wrap = "YES" if rng.random() < 0.25 else "NO"
    if s.wrap == "YES":
        # a wrapped file must declare all its curves (a depth step is "declared count" values)
        s.curves = [("C%d" % j if j else "DEPT", "", "", "") for j in range(nc)]
    s._text_col = text_col
    return s


def render(s, rng):
    if s.wrap == "NO":
        return lasgen.render(s)[0]
    rows = s.rows
    k = rng.choice([1, 2, 3])
    try:
        s.rows = []
        text, _ = lasgen.render(s)
    finally:
        s.rows = rows
    lines = []
    for row in rows:
        for a in range(0, len(row), k):
            lines.append(" " + " ".join(row[a:a + k]))
    return text + "\n".join(lines) + "\n"


def tofloat(t):
    try:
        return float(np.float64(t))
    except ValueError:
        return None


def oracle(s, text, engine, policy):
    import lasio
    try:
        las = lasio.read(text, engine=engine, null_policy=policy)
    except Exception as e:
        return "read raised %s: %s" % (type(e).__name__, str(e)[-100:])
    nv = float(s.null)
    nr, nc = len(s.rows), len(s.rows[0])
    if len(las.curves) != nc:
        return "curve count %d != %d" % (len(las.curves), nc)
    for j in range(nc):
        col = las.curves[j].data
        if len(col) != nr:
            return "curve %d length %d != %d" % (j, len(col), nr)
        toks = [s.rows[i][j] for i in range(nr)]
        vals = [tofloat(t) for t in toks]
        is_text = any(v is None for v in vals)
        for i in range(nr):
            g = col[i]
            if is_text:
                # text columns untouched: never NaN; numeric-looking entries stay what float() makes of them
                if isinstance(g, float) and math.isnan(g):
                    return "text column cell (%d,%d) became NaN" % (i, j)
                continue
            e = vals[i]
            should_nan = policy == "strict" and j >= 1 and e == nv
            if should_nan:
                if not (isinstance(g, float) and math.isnan(g)):
                    return "cell (%d,%d) token %r equals NULL %r but came back %r (policy %s)" % (i, j, toks[i], s.null, g, policy)
            else:
                if not (isinstance(g, float) and (g == e) and not math.isnan(g)):
                    return "cell (%d,%d) token %r (NULL %r, policy %s) came back %r, expected %r" % (i, j, toks[i], s.null, policy, g, e)
    # write -> read keeps the NaN positions
    if policy == "strict":
        try:
            buf = io.StringIO()
            las.write(buf, version=2.0)
            las2 = lasio.read(buf.getvalue(), engine=engine)
            # a finite sample whose printed text is numerically the NULL value IS the null marker on
            # disk (inherent to a finite-precision format): such cells may come back NaN or not
            def printed_null(x, j):
                return j >= 1 and isinstance(x, float) and not math.isnan(x) and float("%.5f" % x) == nv
            for j, (c1, c2) in enumerate(zip(las.curves, las2.curves)):
                for i, (x, y) in enumerate(zip(c1.data, c2.data)):
                    if printed_null(x, j):
                        continue
                    xn = isinstance(x, float) and math.isnan(x)
                    yn = isinstance(y, float) and math.isnan(y)
                    if xn != yn:
                        return "NaN position (%d,%d) changed over write->read: %r -> %r" % (i, j, x, y)
            # every NaN is emitted as the NULL value (never as the word 'nan')
            body = buf.getvalue().split("~A", 1)[1].split("\n")[1:]
            toks = [t for ln in body for t in ln.split()]
            if any(t.lower() in ("nan", "-nan") for t in toks):
                return "a NaN sample was written as the text %r instead of the NULL value %s" % ("nan", s.null)
        except Exception as e:
            return "write->read raised %s: %s" % (type(e).__name__, str(e)[-100:])
    return None


def run(ctx):
    res = lib.Result()
    rng = ctx.rng
    n = 4000 if ctx.thorough else 300
    cases, meta, kinds = [], [], set()
    hist = {"wrapped": 0, "text_column": 0, "null_in_index": 0, "null_cells": 0, "near_null_cells": 0}
    for _ in range(n):
        s = gen_case(rng)
        text = render(s, rng)
        for e in ("numpy", "normal"):
            for pol in ("strict", "none"):
                bad = oracle(s, text, e, pol)
                if bad:
                    res.oracle_violations.append({"payload": {"text": text, "engine": e, "policy": pol, "null": s.null,
                                                              "rows": s.rows}, "what": bad})
                exp, las = rm.impl_read(text, engine=e, null_policy=pol)
                cases.append(rm.coq_case(text, exp, engine=e, null_policy=pol))
                meta.append((text, e, pol))
        nv = float(s.null)
        nulls = sum(1 for row in s.rows for t in row if tofloat(t) == nv)
        kinds.add((s.null, s.wrap, s._text_col is not None, min(nulls, 3), tofloat(s.rows[0][0]) == nv))
        hist["wrapped"] += s.wrap == "YES"
        hist["text_column"] += s._text_col is not None
        hist["null_in_index"] += any(tofloat(row[0]) == nv for row in s.rows)
        hist["null_cells"] += nulls
    if ctx.build.model_ok:
        mism, err = lib.run_coq_cases("c06", [], rm.RUN_READ, cases, shard=150)
        res.corr_error = err
        for i in mism:
            res.mismatches.append({"text": meta[i][0], "engine": meta[i][1], "policy": meta[i][2]})
    else:
        res.corr_error = "model not built"
    res.cases = len(cases)
    res.distinct_nontrivial = len(kinds)
    res.rule = ("files whose NULL is one of {-999.25,-9999,0,999,1e30,-9.9925E2,9999.25}; cells are NULL in several spellings, "
                "near-NULL (+-1 ulp, +-1e-6, sign flipped) or ordinary numbers, in every column incl. the index, optional text "
                "column, wrapped and unwrapped, both engines x {strict, none}; then write->read of the result; non-trivial = "
                "distinct (NULL, wrap, text column?, #NULL cells (capped), NULL in index?)")
    res.samples = [meta[0][0][-200:], meta[-1][0][-200:]]
    res.histogram = hist
    return res


def replay(payload):
    s = lasgen.Spec()
    s.null = payload["null"]
    s.rows = payload["rows"]
    bad = oracle(s, payload["text"], payload["engine"], payload["policy"])
    return bad is not None, bad or "ok"


def search(ctx, res):
    import random
    rng = random.Random(ctx.seed + 13)
    for _ in range(20000):
        s = gen_case(rng)
        text = render(s, rng)
        for e in ("numpy", "normal"):
            for pol in ("strict", "none"):
                bad = oracle(s, text, e, pol)
                if bad:
                    yield {"payload": {"text": text, "engine": e, "policy": pol, "null": s.null, "rows": s.rows}, "what": bad}
                    return
