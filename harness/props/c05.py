"""C05 — every line is attributed to the section whose title precedes it."""
import copy
import itertools
import math

import numpy as np

import lib
import lasgen
import readmodel as rm
from props import c08

PROP = "C05"
MODEL_TARGETS = ["Corr/ReadShow.vo"]
THEOREMS = ["C05_cut", "C05_bodies", "C05_type_data", "C05_type_other", "C05_type_header", "C05_steering_only_V_W", "C05_steering_W_only_null", "C05_steering_V_not_null", "C05_route_custom_frame",
            "C05_section_type_current", "C05_route_current", "C05_steering_current",
            "C05_others", "C05_views", "C05_read_blocks_congr", "C05_read_uses_steering", "C05_steering_first_pass", "C05_steering_read_frame", "C05_steering_read_blocks", "C05_steer_sec_unfold", "C05_steer_ins_block_unfold", "C05_read_steering_unfold", "C05_views_permutation", "C05_view_of_moved_block", "C05_sections_count_perm"]
ASSUMPTIONS = [
    "planted steering items: VERS/WRAP/DLM in ~W, ~C (bound to a data column), ~P and custom sections, NULL in ~V, ~C, ~P and custom "
    "sections, with values that would change the parse if honoured (WRAP YES with an undeclared surplus column, DLM COMMA/TAB on "
    "blank-separated data, VERS 1.2/3.0, NULL equal to a data value); the oracle compares every section and every cell with the "
    "intended content, in which only ~Version's VERS/WRAP/DLM and ~Well's NULL steer",
    "LAS 1.2/2.0 titles only (LAS 3.0 *_Data/_Definition/_Parameter section handling is outside the model); in a 1.2/2.0 file a "
    "~V/~W/~C/~P title spelled with an underscore (~Curve_Information) is that section like any other spelling",
    "str.upper/lower modelled for ASCII; generated mnemonics and titles are ASCII",
]

TITLES = {
    "V": ["~V", "~Version Information", "~VERSION INFORMATION SECTION", "~v", "~version"],
    "W": ["~W", "~Well", "~WELL INFORMATION BLOCK", "~w", "~well information -----"],
    "C": ["~C", "~Curve Information", "~CURVE INFORMATION BLOCK", "~c", "~curves"],
    "P": ["~P", "~Parameter", "~PARAMETER INFORMATION", "~p", "~params -----"],
    "O": ["~O", "~Other", "~OTHER INFORMATION", "~o", "~other"],
    "A": ["~A", "~ASCII", "~A  DEPT GR", "~a", "~ascii log data", "~Ascii ----"],
}
CUSTOM_TITLES = ["~Tops", "~Remarks info", "~ztest", "~Inclinometry", "~T", "~x special ---", "~Zone 1"]
STEER = [("VERS", "", "1.2", "planted"), ("WRAP", "", "YES", "planted"), ("NULL", "", "5", "planted"),
         ("DLM", "", "COMMA", "planted"), ("VERS", "", "3.0", "planted"), ("DLM", "", "TAB", "planted"),
         ("NULL", "", "2", "planted"), ("WRAP", "", "NO", "planted")]


# Title spellings with an underscore (audit A3).  lasio used to file ~Curve_Information / ~Parameter_Info of a 1.2/2.0 file as
# custom sections (its router tested "_" to recognise LAS 3.0 ~X_Data / ~X_Definition titles): genuine defect, fixed in lasio
# f4c32c8 (the underscore test now applies to VERS 3.0 files only) together with Model/Read.v route.  The class (1.2/2.0 files
# only; VERS 3.0 is never the ~Version value here) is counted under histogram class "underscore_titles"; the plain expectation
# applies (such a title introduces the Version / Well / Curves / Parameter section) and a disagreement on such a file carries
# the message prefix "underscore title".
UNDERSCORE_TITLES = True
US_TITLES = {
    "V": ["~Version_Info", "~VERSION_INFORMATION"],
    "W": ["~Well_Info", "~WELL_INFORMATION", "~Well site_parameter"],
    # round 7 (C05_5): trailing text that contains one of lasio's LAS 3.0 indicators (_PARAMETER / _DEFINITION, any case) in a
    # 1.2/2.0 file -- a router that consults `las3_section` without the version files such a ~C/~P section as a custom one
    "C": ["~Curve_Information", "~CURVE_INFORMATION", "~curve_info", "~C (see core_definition)", "~Curve Information RUN_PARAMETERS"],
    "P": ["~Parameter_Info", "~PARAMETER_INFORMATION", "~param_info", "~Parameter Information - RUN_PARAMETERS", "~P tool_definition"],
}


def data_token(s, rng):
    """a token standing in a non-index column (a NULL item equal to it would null that cell if it were honoured)"""
    cells = [row[j] for row in s.rows for j in range(1, len(row))]
    return rng.choice(cells) if cells else "5"


def plant(s, rng, tgt):
    """plant one steering-named item in section tgt; -> the item"""
    tok = data_token(s, rng)
    null_items = [("NULL", "", tok, "planted"), ("NULL", "", tok, "planted"), ("NULL", "", "5", "planted"),
                  ("null", "", tok, "planted")]
    vwd_items = [("VERS", "", "1.2", "planted"), ("WRAP", "", "YES", "planted"), ("DLM", "", "COMMA", "planted"),
                 ("VERS", "", "3.0", "planted"), ("DLM", "", "TAB", "planted"), ("WRAP", "", "YES", "planted"),
                 ("wrap", "", "YES", "planted"), ("DLM", "", "COMMA", "planted")]
    if tgt == "V":
        it = rng.choice(null_items)                    # VERS/WRAP/DLM in ~V are the real steering items
        s.v_extra = getattr(s, "v_extra", []) + [(rng.randint(0, 3), it)]
        s.v_extra.sort(key=lambda x: x[0])
        s.extra_lines = dict(s.extra_lines)
        s.extra_lines["V"] = [(p, lasgen.fmt_item(*i)) for p, i in s.v_extra]
        if rng.random() < 0.5:
            s.null = None                              # no ~Well NULL item that would override a NULL honoured from ~V
    elif tgt == "W":
        it = rng.choice(vwd_items)                     # NULL in ~W is the real steering item
        if s.version == "1.2":
            it = (it[0], it[1], it[3], it[2])          # 1.2 ~Well lines carry the value after the colon
        s.well = list(s.well)
        s.well.insert(rng.randint(0, len(s.well)), it)
    elif tgt == "C":
        it = rng.choice(null_items + vwd_items)
        s.curves = s.curves + [it]                     # a curve of that name, bound to a column of its own
        s.rows = [row + [lasgen.num_token(rng)] for row in s.rows]
    elif tgt == "P":
        it = rng.choice(null_items + vwd_items)
        s.params = s.params + [it]
    else:
        it = rng.choice(null_items + vwd_items)
        t, items = s.custom[tgt[1]]
        s.custom[tgt[1]] = (t, items + [it])
    return it


def gen_spec(rng, thorough):
    s = lasgen.basic_spec(rng)
    ncust = rng.choice([0, 0, 1, 2])
    titles = rng.sample(CUSTOM_TITLES, ncust)
    for t in titles:
        items = [(rng.choice(["TOP", "BASE", "ZN", "K"]) + str(i), rng.choice(lasgen.UNITS), rng.choice(lasgen.TEXTVALS),
                  rng.choice(lasgen.DESCRS)) for i in range(rng.randint(0, 3))]
        s.custom.append((t, items))
    order = ["W", "C", "P", "O"] + [("X", i) for i in range(ncust)]
    rng.shuffle(order)
    # C must precede A for declared curves to be bound; A anywhere after that
    s.order = order
    ci = order.index("C")
    s.a_pos = rng.choice([None] + list(range(ci, len(order))))
    for k in "VWCPOA":
        s.titles[k] = rng.choice(TITLES[k])
    if rng.random() < 0.3:
        s.well = []
        s.null = rng.choice([None, "-999.25"])
    if rng.random() < 0.2:
        s.params = []
    if rng.random() < 0.2:
        s.other = []
    s.eol = rng.choice(["\n", "\n", "\r\n"])
    s.final_newline = rng.random() < 0.8
    # keep NULL out of the data so that the data oracle is plain
    planted = []
    if rng.random() < 0.7:
        targets = ["P", "C", "C", "V", "W", "W"] + [("X", i) for i in range(ncust)]
        for _ in range(rng.randint(1, 3)):
            tgt = rng.choice(targets)
            planted.append((tgt, plant(s, rng, tgt)))
        if any(it[0].upper() == "WRAP" for _, it in planted) and rng.random() < 0.6:
            # a surplus (undeclared) column: a WRAP YES that is honoured re-shapes the data to the declared count
            s.rows = [row + [lasgen.num_token(rng)] for row in s.rows]
    s._underscore = []
    if UNDERSCORE_TITLES and rng.random() < 0.2:
        for k in rng.sample("VWCP", rng.choice([1, 1, 2])):
            s.titles[k] = rng.choice(US_TITLES[k])
            s._underscore.append(k)
    return s, planted


def fnum(tok):
    return float(np.float64(tok))


def expect_item(section, version, it):
    m, u, v, d = it
    if section == "W" and version == "1.2" and m not in ("STRT", "STOP", "STEP", "NULL", "strt", "stop", "step", "null"):
        v, d = d, v
    if section == "C":
        ev = ("str", v)
    elif m.upper() in ("API", "UWI") and section != "P":
        ev = ("str", v)
    else:
        ev = c08.expected_by_statement(v)
    return (m, u, ev, d)


def got_item(it):
    return (it.original_mnemonic, it.unit, c08.classify(it.value), it.descr)


def items_equal(got, exp):
    if len(got) != len(exp):
        return False
    for g, e in zip(got, exp):
        if g[0] != e[0] or g[1] != e[1] or g[3] != e[3] or not c08.same(g[2], e[2]):
            return False
    return True


def oracle(spec, text, engine="numpy"):
    bad = oracle_(spec, text, engine)
    if bad and any("_" in spec.titles[k] for k in "VWCP"):
        return "underscore title: %r: %s" % ([spec.titles[k] for k in "VWCP" if "_" in spec.titles[k]], bad)
    return bad


def version_items(spec):
    out = [("VERS", "", spec.version, "CWLS LOG ASCII STANDARD"), ("WRAP", "", spec.wrap, "wrap mode")]
    if spec.dlm:
        out.append(("DLM", "", spec.dlm, "delimiter"))
    for pos, it in reversed(sorted(getattr(spec, "v_extra", []), key=lambda x: x[0])):
        out.insert(min(pos, len(out)), tuple(it))
    return out


def oracle_(spec, text, engine="numpy"):
    """None if the read result is exactly the spec, else a description."""
    import lasio
    try:
        las = lasio.read(text, mnemonic_case="preserve", engine=engine)
    except Exception as e:
        return "read raised %s: %s" % (type(e).__name__, str(e)[-120:])
    ver = spec.version
    exp_v = version_items(spec)
    if not items_equal([got_item(i) for i in las.version], [expect_item("V", ver, i) for i in exp_v]):
        return "~Version items differ: got %r expected %r" % ([got_item(i) for i in las.version], [expect_item("V", ver, i) for i in exp_v])
    w = list(spec.well)
    if spec.null is not None:
        w = [("NULL", "", spec.null, "NULL VALUE")] + w
    if not items_equal([got_item(i) for i in las.well], [expect_item("W", ver, i) for i in w]):
        return "~Well items differ: got %r expected %r" % ([got_item(i) for i in las.well], [expect_item("W", ver, i) for i in w])
    ncols = len(spec.rows[0]) if spec.rows else 0
    gc = [got_item(i) for i in las.curves]
    ec = [expect_item("C", ver, i) for i in spec.curves]
    if not items_equal(gc[:len(ec)], ec):
        return "~Curves items differ: got %r expected %r" % (gc, ec)
    if len(gc) != max(len(ec), ncols):
        return "curve count %d, expected %d" % (len(gc), max(len(ec), ncols))
    if not items_equal([got_item(i) for i in las.params], [expect_item("P", ver, i) for i in spec.params]):
        return "~Parameter items differ: got %r expected %r" % ([got_item(i) for i in las.params], [expect_item("P", ver, i) for i in spec.params])
    if las.other != "\n".join(x.strip() for x in spec.other):
        return "~Other text differs: %r" % (las.other,)
    keys = [k for k in las.sections if k not in ("Version", "Well", "Curves", "Parameter", "Other")]
    ekeys = [spec.custom[k[1]][0].strip()[1:] for k in spec.order if isinstance(k, tuple)]
    if keys != ekeys:
        return "custom section keys %r, expected %r" % (keys, ekeys)
    for k in spec.order:
        if isinstance(k, tuple):
            t, items = spec.custom[k[1]]
            sec = las.sections[t.strip()[1:]]
            if isinstance(sec, str) or not items_equal([got_item(i) for i in sec], [expect_item("X", ver, i) for i in items]):
                return "custom section %r differs: %r" % (t, sec)
    # data
    nullv = fnum(spec.null) if spec.null is not None else None
    for j in range(ncols):
        col = las.curves[j].data
        if len(col) != len(spec.rows):
            return "curve %d has %d samples, expected %d" % (j, len(col), len(spec.rows))
        for i, row in enumerate(spec.rows):
            e = fnum(row[j])
            g = col[i]
            if j > 0 and nullv is not None and e == nullv:
                if not (isinstance(g, float) and math.isnan(g)):
                    return "cell (%d,%d) = %r, expected NaN (NULL)" % (i, j, g)
            elif not (isinstance(g, float) and float(g).hex() == e.hex()):
                return "cell (%d,%d) = %r, expected %r" % (i, j, g, e)
    return None


def permutations_stream(rng, n):
    """exhaustive section orders for small sizes, A at every position after C"""
    out = []
    base = ["W", "C", "P", "O", ("X", 0)]
    for perm in itertools.permutations(base):
        ci = perm.index("C")
        for a in [None] + list(range(ci, len(perm))):
            out.append((list(perm), a))
    rng.shuffle(out)
    return out[:n]


def run(ctx):
    res = lib.Result()
    rng = ctx.rng
    n = 6000 if ctx.thorough else 500
    cases = []
    meta = []
    orders = set()
    hist = {"eol_crlf": 0, "no_final_newline": 0, "planted_steering": 0, "a_not_last": 0, "custom_sections": 0, "lowercase_titles": 0,
            "planted_in_C": 0, "planted_in_W": 0, "planted_null_in_V": 0, "planted_in_P_or_custom": 0,
            "planted_null_equal_to_a_data_value": 0, "planted_wrap_yes_with_surplus_column": 0, "no_well_null_item": 0,
            "underscore_titles": 0}
    specs = []
    for _ in range(n):
        specs.append(gen_spec(rng, ctx.thorough))
    for perm, a in permutations_stream(rng, 600 if ctx.thorough else 150):
        s, planted = gen_spec(rng, ctx.thorough)
        if len(s.custom) == 0:
            s.custom.append(("~Tops", [("TOP1", "M", "100", "top")]))
        s.custom = s.custom[:1]
        s.params = [p for p in s.params if p[3] != "planted"]
        s.order, s.a_pos = perm, a
        specs.append((s, []))
    for s, planted in specs:
        text, layout = lasgen.render(s)
        for engine in ("numpy", "normal"):
            bad = oracle(s, text, engine)
            if bad:
                res.oracle_violations.append({"payload": {"text": text, "engine": engine, "spec": spec_payload(s)}, "what": bad})
        exp, las = rm.impl_read(text, mnemonic_case="preserve")
        cases.append(rm.coq_case(text, exp, mnemonic_case="preserve"))
        meta.append(text)
        orders.add((tuple(str(k) for k in s.order), s.a_pos, tuple(s.titles[k] for k in "VWCPOA")))
        hist["eol_crlf"] += s.eol == "\r\n"
        hist["no_final_newline"] += not s.final_newline
        hist["planted_steering"] += bool(planted)
        hist["planted_in_C"] += any(t == "C" for t, _ in planted)
        hist["planted_in_W"] += any(t == "W" for t, _ in planted)
        hist["planted_null_in_V"] += any(t == "V" for t, _ in planted)
        hist["planted_in_P_or_custom"] += any(t == "P" or isinstance(t, tuple) for t, _ in planted)
        cells = {row[j] for row in s.rows for j in range(1, len(row))}
        hist["planted_null_equal_to_a_data_value"] += any(it[0].upper() == "NULL" and it[2] in cells for _, it in planted)
        hist["planted_wrap_yes_with_surplus_column"] += bool(planted) and bool(s.rows) and len(s.rows[0]) > len(s.curves)
        hist["no_well_null_item"] += s.null is None
        hist["underscore_titles"] += bool(getattr(s, "_underscore", []))
        hist["a_not_last"] += s.a_pos is not None and s.a_pos < len(s.order) - 1
        hist["custom_sections"] += len(s.custom)
        hist["lowercase_titles"] += sum(1 for k in "VWCPOA" if s.titles[k][1].islower())
    if ctx.build.model_ok:
        mism, err = lib.run_coq_cases("c05", [], rm.RUN_READ, cases, shard=100)
        res.corr_error = err
        for i in mism:
            res.mismatches.append({"text": meta[i]})
    else:
        res.corr_error = "model not built"
    res.cases = len(cases)
    res.distinct_nontrivial = len(orders)
    res.rule = ("LAS 1.2/2.0 files with ~W/~C/~P/~O and 0-2 custom header sections in random order (plus all 120 permutations of "
                "{W,C,P,O,custom} with ~A at every position after ~C), title spellings from the documented table in both cases and (20 %) with an underscore (~Curve_Information, ~param_info), "
                "bodies of 0..n items, steering names planted (VERS/WRAP/DLM in ~W, ~C, ~P, custom; NULL in ~V, ~C, ~P, custom; ~C items "
                "bound to a data column; values WRAP YES (+ surplus column), DLM COMMA/TAB, VERS 1.2/3.0, NULL = a data value), LF/CRLF, with/without "
                "final newline; non-trivial = distinct (section order, ~A position, title spelling tuple)")
    res.samples = [meta[0][:400], meta[len(meta) // 2][:400]]
    res.histogram = hist
    return res


def spec_payload(s):
    d = {k: getattr(s, k) for k in ("version", "wrap", "dlm", "null", "well", "curves", "params", "other", "custom", "rows",
                                     "order", "a_pos", "titles", "eol", "final_newline")}
    d["v_extra"] = [[p, list(it)] for p, it in getattr(s, "v_extra", [])]
    return d


def spec_from_payload(p):
    s = lasgen.Spec()
    for k, v in p.items():
        setattr(s, k, v)
    s.well = [tuple(x) for x in s.well]
    s.curves = [tuple(x) for x in s.curves]
    s.params = [tuple(x) for x in s.params]
    s.custom = [(t, [tuple(x) for x in items]) for t, items in s.custom]
    s.order = [tuple(k) if isinstance(k, list) else k for k in s.order]
    s.v_extra = [(p, tuple(it)) for p, it in getattr(s, "v_extra", [])]
    return s


def replay(payload):
    s = spec_from_payload(payload["spec"])
    bad = oracle(s, payload["text"], payload.get("engine", "numpy"))
    return bad is not None, bad or "ok"


def search(ctx, res):
    import random
    rng = random.Random(ctx.seed + 77)
    for _ in range(20000):
        s, planted = gen_spec(rng, True)
        text, _ = lasgen.render(s)
        for engine in ("numpy", "normal"):
            bad = oracle(s, text, engine)
            if bad:
                yield {"payload": {"text": text, "engine": engine, "spec": spec_payload(s)}, "what": bad}
                return
