"""C11 — lasio's own output is a fixed point of read -> write."""
import lib
import corpus_files
import readmodel as rm
import writemodel as wm

PROP = "C11"
MODEL_TARGETS = ["Corr/WriteShow.vo", "Proofs/SecondCycleCheck.vo"]
THEOREMS = ["C11_second_write_same_text_partial", "C11_second_write_same_text_nowrap", "C11_standardize_idem", "C11_values_fixed", "C11_refreshed_is_text", "C11_refreshed_shapes", "C11_refresh_idem_values", "C11_data_tokens_fixed", "C11_cell_text_fixed", "C11_column_text_cycles", "C11_iter", "C11_iter_from_fix", "C11_reread_fixed_point_partial",
            "C11_read_canonical", "C11_canonical_determined", "C11_second_header", "C11_stable_itemb_ok", "C11_refresh_not_triggered", "C11_back_okb_of_Hfix", "C11_second_data_tokens", "C11_second_data_lines", "C11_second_cycle", "C11_cycle_fixed", "C11_cycles_same_text", "C11_cycles_iter",
            "C11_second_header_same_lines", "C11_second_cycle_content_partial", "C11_content_okb_ok",
            "C11_well_section_current", "C11_params_section_current", "C11_version_section_current", "C11_curves_section_current"]
ASSUMPTIONS = [
    "oracle: float(fmt % x) is a fixed point of x -> float(fmt % x) (printing a printed value again gives the same text)",
    "spacers made of blanks/tabs are the domain of the writer model; option sets with another spacer (',', ';', '') go through the "
    "implementation-side oracle only (known finding nonblank-spacer)",
    "an input on which the first read or write raises is outside the statement; the bases are built/filtered so that this never happens: "
    "if it does the run reports that the correspondence could not be evaluated",
    "second cycle: same text for any number of cycles proved on the decidable domain cycle_hypsb (first written form in normal form); outside it content equality (numeric values through the numeq oracle, decidable per file) proved on cycle_whypsb under the premise that the second written form satisfies the C01/C03 file domain (closure not proved); both domains are evaluated on every chain and checked against lasio",
]

# the domains of C11_second_cycle ("D": the theorem says the second write returns the text of the first) and of
# C11_second_cycle_content_partial ("C": same data lines, content equal up to numeric equality) evaluated by the model on a
# chain case (Proofs/SecondCycleCheck.v)
RUN_DOMAIN = """
Require Import SecondCycleCheck.
Definition run := domain_flag.
"""


def data_part(text):
    """the lines after the last ~A line"""
    lines = text.split("\n")
    k = max((i for i, l in enumerate(lines) if l.strip().upper().startswith("~A")), default=-1)
    return lines[k + 1:]


WOPTS = [dict(), dict(version=1.2), dict(version=2), dict(wrap=True), dict(version=1.2, wrap=True, data_width=40),
         dict(fmt="%.3f"), dict(len_numeric_field=-1, spacer="\t"), dict(mnemonics_header=True), dict(fmt="%.6e", len_numeric_field=16),
         dict(header_width=30, data_section_header="~A"), dict(version=2, column_fmt={0: "%.2f"}, fmt="%.4f"),
         dict(lhs_spacer=""), dict(lhs_spacer="  ", spacer="  ", wrap=True), dict(lhs_spacer="", len_numeric_field=-1, mnemonics_header=True),
         dict(column_fmt={1: "%.2f", 2: "%.1f"}), dict(fmt="%.3f", column_fmt={0: "%.5f", 1: "%.6e", 3: "%.0f"}),
         dict(version=1.2, column_fmt={1: "%9.4f", 4: "%.2f"}, lhs_spacer="\t")]

# A4: spacers that are not a non-empty run of blanks/tabs are written verbatim between the fields, no DLM is declared, and the file does
# not read back as written (known finding nonblank-spacer); every oracle message of this class starts with the tag
NONBLANK_SPACERS = True
NONBLANK_TAG = "NONBLANK-SPACER:"
NONBLANK_WOPTS = [dict(spacer=","), dict(spacer=";"), dict(spacer=""), dict(spacer=",", version=1.2, wrap=True), dict(spacer="", len_numeric_field=-1)]
MIN_CORPUS = 50         # example files expected to pass corpus_files.corpus() (71 on the unchanged tree)
MIN_NULL_TWICE_12 = 6   # chains on a base with a repeated NULL line written in the 1.2 layout (7 forced in the quick tier + drawn ones)

# read options used on every read of a chain
ROPTS = [dict(), dict(), dict(), dict(mnemonic_case="preserve"), dict(mnemonic_case="lower"), dict(engine="normal"),
         dict(ignore_header_errors=True), dict(mnemonic_case="preserve", engine="normal", ignore_header_errors=True)]


def is_blank_spacer(s):
    return s != "" and all(ch in " \t" for ch in s)


def nonblank(wkw):
    return not is_blank_spacer(wkw.get("spacer", " "))


def snapshot(las):
    return rm.show_las(las)


def oracle(text, wkw, k, rkw=None):
    """read(write(...)) applied k+1 times equals applied once"""
    import io
    import lasio
    rkw = rkw or {}
    tag = (NONBLANK_TAG + " ") if nonblank(wkw) else ""
    try:
        las = lasio.read(text, **rkw)
        buf = io.StringIO()
        las.write(buf, **wkw)
    except Exception as e:
        return None, "not accepted (%s: %s)" % (type(e).__name__, str(e)[-80:])
    cur = buf.getvalue()
    try:
        first = snapshot(lasio.read(cur, **rkw))
        for i in range(k):
            l = lasio.read(cur, **rkw)
            buf = io.StringIO()
            l.write(buf, **wkw)
            cur = buf.getvalue()
            snap = snapshot(lasio.read(cur, **rkw))
            if snap != first:
                j = next((p for p in range(min(len(snap), len(first))) if snap[p] != first[p]), 0)
                return (tag + "after %d more read->write cycle(s) the content differs near %r vs %r"
                        % (i + 1, first[max(0, j - 60):j + 60], snap[max(0, j - 60):j + 60])), "ok"
    except Exception as e:
        return tag + "cycle raised %s: %s" % (type(e).__name__, str(e)[-100:]), "ok"
    return None, "ok"


def delimited_base(rng):
    """a generated base that declares DLM COMMA or DLM TAB (the data are delimited accordingly)"""
    import lasgen
    s = lasgen.basic_spec(rng, nrows=rng.choice([1, 2, 3]))
    s.dlm = rng.choice(["COMMA", "COMMA", "TAB"])
    s.wrap = "NO"
    s.data_pad = ("", " ")
    for i, row in enumerate(s.rows):
        row[0] = "%.1f" % (1.0 + 0.5 * i)
    s.well[1] = ("STOP", "M", s.rows[-1][0], "STOP")
    return lasgen.render(s)[0]


def bases(ctx):
    rng = ctx.rng
    out = [("corpus:" + n, t) for n, t in corpus_files.corpus()]
    for i in range(60 if ctx.thorough else 25):
        out.append(("gen:%d" % i, corpus_files.generated(rng)))
    for i in range(20 if ctx.thorough else 8):
        out.append(("dlm:%d" % i, delimited_base(rng)))
    for i in range(16 if ctx.thorough else 6):
        out.append(("lossy:%d" % i, lossy_base(rng)))
    return out


# a self-consistent file (STRT/STOP/STEP equal the data at full precision) whose index needs more digits than a coarse
# index format prints: the header must not change between the first and the second cycle (lasio fix b6e1b73)
LOSSY_WOPTS = [dict(column_fmt={0: "%.1f"}), dict(fmt="%.1f"), dict(fmt="%.0f"), dict(column_fmt={0: "%.2f"}, fmt="%.4f"), dict(fmt="%g"),
               dict(fmt="%.3e"), dict(column_fmt={0: "%10.2f"}), dict(fmt="%.2f", wrap=True), dict(version=1.2, column_fmt={0: "%.1f"})]


def lossy_base(rng):
    import lasgen
    nr = rng.choice([1, 2, 3, 5])
    s = lasgen.basic_spec(rng, nrows=nr)
    start = rng.choice([1670.123, 0.0375, 12345.678912, 99.99951])
    step = rng.choice([0.125, -0.125, 0.0625, 1.0003])
    idx = ["%r" % (start + i * step) for i in range(nr)]
    idx = [("%.6f" % float(x)).rstrip("0").rstrip(".") if "e" not in x else x for x in idx]
    for i, row in enumerate(s.rows):
        row[0] = idx[i]
    stp = ("%.6f" % (float(idx[1]) - float(idx[0]))).rstrip("0").rstrip(".") if nr > 1 else "0"
    keep = [w for w in s.well if w[0] not in ("STRT", "STOP", "STEP")]
    s.well = [("STRT", "M", idx[0], "START"), ("STOP", "M", idx[-1], "STOP"), ("STEP", "M", stp, "STEP")] + keep
    s.curves[0] = (s.curves[0][0], "M", "", "depth")
    return lasgen.render(s)[0]


# a mnemonic repeated inside one header section.  lasio keeps both items and numbers the SESSION mnemonic (NULL:1, NULL:2) while
# original_mnemonic stays as written; the value:descr / descr:value layout of a written LAS 1.2 ~Well line (STRT/STOP/STEP/NULL
# against the rest) is a matter of the mnemonic AS WRITTEN, which is also what the reader sees (seeded change C11_4 / C12_4).  A
# duplicated STRT/STOP/STEP cannot be written at all, so the special mnemonic that is repeated is NULL; with two NULL items lasio
# nulls nothing on read (c06.py ASSUMPTIONS), hence no NaN reaches the writer (which would need las.well["NULL"]).
DUP_KINDS = ["null_same", "null_diff", "null_same", "null_diff", "null_case", "well_item", "param", "null_and_param", "null_three"]
DUP_NULLS = ["-999.25", "-9999", "0", "-999.2500", "-9999.0"]
DUP_NULL_DESCRS = ["NULL VALUE", "ALT NULL", "second null value", "NULL", "N"]
# option sets that give the LAS 1.2 layout (version=None: only for a base that says VERS 1.2)
DUP12_WOPTS = [dict(version=1.2), dict(), dict(version=1.2, wrap=True), dict(version=1.2, fmt="%.3f", lhs_spacer=""),
               dict(version=1.2, header_width=30, data_section_header="~A"), dict(wrap=False, mnemonics_header=True),
               dict(version=1.2, len_numeric_field=-1, spacer="\t")]


def dup_base(rng, kind=None, version=None):
    """a self-consistent base (regular index, STRT/STOP/STEP agree with the data) of the given version whose ~Well repeats NULL
    (same value / two values / three times / in two spellings), or repeats COMP or UWI, or whose ~Parameter repeats a mnemonic"""
    import lasgen
    kind = kind or rng.choice(DUP_KINDS)
    s = lasgen.basic_spec(rng, ncurves=rng.randint(1, 4), nrows=rng.choice([1, 2, 3]), version=version or rng.choice(["1.2", "2.0"]))
    s.wrap = "NO"
    for i, row in enumerate(s.rows):
        row[0] = "%.1f" % (1.0 + 0.5 * i)
    s.well[1] = ("STOP", "M", s.rows[-1][0], "STOP")
    s.curves[0] = (s.curves[0][0], "M", "", s.curves[0][3])
    if kind.startswith("null"):
        n1 = rng.choice(DUP_NULLS)
        others = [x for x in DUP_NULLS if float(x) != float(n1)]
        n2 = n1 if kind == "null_same" else rng.choice(others) if kind == "null_diff" else rng.choice(DUP_NULLS)
        names = ["NULL", "NULL"]
        if kind == "null_case":
            names = rng.choice([["NULL", "Null"], ["null", "NULL"], ["Null", "null"]])
        items = [(names[0], "", n1, "NULL VALUE"), (names[1], rng.choice(["", "", "M"]), n2, rng.choice(DUP_NULL_DESCRS))]
        if kind == "null_three":
            items.append(("NULL", "", rng.choice(DUP_NULLS), rng.choice(DUP_NULL_DESCRS)))
        s.null = None
        rest = [w for w in s.well if w[0] not in ("STRT", "STOP", "STEP")]
        if rng.random() < 0.5:
            # the NULL lines together after STEP (where the standard puts the one NULL line)
            s.well = s.well[:3] + items + rest
        else:
            w = list(s.well)
            for it in items:
                w.insert(rng.randint(0, len(w)), it)
            s.well = w
    if kind == "well_item":
        m = rng.choice(["COMP", "UWI", "UWI", "WELL"])
        vals = ["100091604920W300", "007"] if m == "UWI" else ["ANY OIL COMPANY INC.", "WELL-1", "12-34", ""]
        s.well = [w for w in s.well if w[0] != m]
        for d in ("first", "the same mnemonic again"):
            s.well.insert(rng.randint(3, len(s.well)), (m, "", rng.choice(vals), d))
    if kind in ("param", "null_and_param"):
        m = rng.choice(["BHT", "MUD", "RM"])
        for d in ("first", "the same mnemonic again", "and again")[:rng.choice([2, 2, 3])]:
            s.params.insert(rng.randint(0, len(s.params)), (m, rng.choice(["", "DEGC", "OHMM"]), rng.choice(["35.5", "GEL CHEM", "12", ""]), d))
    return lasgen.render(s)[0]


def dup_bases(rng, n):
    """n bases that go through DUP_KINDS in turn, versions alternating (so the first nine cover every kind whatever the seed)"""
    return [("dup:%s:%d" % (DUP_KINDS[i % len(DUP_KINDS)], i),
             dup_base(rng, DUP_KINDS[i % len(DUP_KINDS)], ["1.2", "2.0"][(i + i // len(DUP_KINDS)) % 2])) for i in range(n)]


def says_12(text):
    import re
    return re.search(r"(?m)^\s*VERS\s*\.\s+1\.2\b", text) is not None


def dup12_wopts(rng, text):
    """an option set under which the base is written in the LAS 1.2 layout"""
    w = rng.choice(DUP12_WOPTS)
    if "version" not in w and not says_12(text):
        w = dict(w, version=1.2)
    return w


EXPLICIT = [dict(STOP=1010.0), dict(STRT=0.0), dict(STEP=0.0), dict(STOP=5.5, version=1.2), dict(STRT=1.0, STOP=2.0, STEP=0.25)]


def irregular_base(rng):
    """self-consistent file (STOP = last index value) whose STEP is not the first increment (irregular sampling, STEP 0)"""
    import lasgen
    s = lasgen.basic_spec(rng, nrows=4)
    idx = ["1000.0", "1000.5", "1002.0", "1004.5"]
    for i, row in enumerate(s.rows):
        row[0] = idx[i]
    s.well[0] = ("STRT", "M", idx[0], "START")
    s.well[1] = ("STOP", "M", idx[-1], "STOP")
    s.well[2] = ("STEP", "M", "0", "STEP")
    s.curves[0] = (s.curves[0][0], "M", "", "depth")
    return lasgen.render(s)[0]


def run(ctx):
    res = lib.Result()
    rng = ctx.rng
    cases, meta, kinds, same_text, same_data = [], [], set(), [], []
    hist = {"corpus": 0, "generated": 0, "dlm_comma_tab": 0, "lossy_index_format": 0, "not_accepted": 0, "nonblank_spacer": 0, "read_options": 0, "lhs_spacer": 0,
            "column_fmt_j_gt_0": 0, "duplicated_mnemonic": 0, "null_twice": 0, "null_twice_written_as_1.2": 0}
    bs = bases(ctx)
    # the bases with a repeated mnemonic and the choices made for them draw from a generator of their own: the sample of the
    # other classes is the same with and without them
    import random
    drng = random.Random(ctx.seed + 1104)
    bs_plain = list(bs)
    bs += dup_bases(drng, 27 if ctx.thorough else 9)
    n_corpus = sum(1 for n, _ in bs if n.startswith("corpus:"))
    not_accepted = []
    per = 6 if ctx.thorough else 1
    for name, text in bs:
        dup = name.startswith("dup:")
        rng = drng if dup else ctx.rng
        for rep in range(per + 1 if dup else per):
            wkw = rng.choice(LOSSY_WOPTS) if name.startswith("lossy") else rng.choice(WOPTS)
            rkw = rng.choice(ROPTS)
            k = rng.choice([1, 2, 4]) if ctx.thorough else rng.choice([1, 2])
            if dup and rep == 0:
                # every base with a repeated mnemonic is cycled 2-3 times in the LAS 1.2 layout; the other chains draw from WOPTS
                wkw, k = dup12_wopts(rng, text), rng.choice([2, 3])
            if NONBLANK_SPACERS and rng.random() < 0.08:
                # implementation-side oracle only (the writer model assumes blank spacers)
                wnb = rng.choice(NONBLANK_WOPTS)
                bad, st = oracle(text, wnb, k, rkw)
                if st == "ok":
                    hist["nonblank_spacer"] += 1
                    if bad:
                        res.oracle_violations.append({"payload": {"text": text, "wkw": wnb, "k": k, "rkw": rkw}, "what": "%s: %s" % (name, bad)})
            bad, st = oracle(text, wkw, k, rkw)
            if st != "ok":
                hist["not_accepted"] += 1
                not_accepted.append("%s: %s" % (name, st))
                continue
            if bad:
                res.oracle_violations.append({"payload": {"text": text, "wkw": wkw, "k": k, "rkw": rkw}, "what": "%s: %s" % (name, bad)})
            ops = [("R", rkw), ("W", wkw), ("R", rkw), ("W", wkw), ("R", rkw)]
            c, r = wm.coq_case(text, ops)
            cases.append(c)
            same_text.append(len(r["texts"]) >= 2 and r["texts"][0] == r["texts"][1])
            same_data.append(len(r["texts"]) >= 2 and data_part(r["texts"][0]) == data_part(r["texts"][1]))
            meta.append((name, text, ops))
            kinds.add((name, tuple(sorted((a, str(b)) for a, b in wkw.items())), tuple(sorted(rkw.items()))))
            hist["corpus" if name.startswith("corpus") else ("dlm_comma_tab" if name.startswith("dlm") else
                                                            ("lossy_index_format" if name.startswith("lossy") else
                                                             ("duplicated_mnemonic" if dup else "generated")))] += 1
            hist["null_twice"] += name.startswith("dup:null")
            hist["null_twice_written_as_1.2"] += name.startswith("dup:null") and (wkw.get("version") == 1.2 or ("version" not in wkw and says_12(text)))
            hist["read_options"] += bool(rkw)
            hist["lhs_spacer"] += "lhs_spacer" in wkw
            hist["column_fmt_j_gt_0"] += any(j > 0 for j in (wkw.get("column_fmt") or {}))
    # explicit STRT/STOP/STEP keyword values given on every cycle (implementation-side oracle only: the writer model
    # leaves STRT/STOP/STEP to lasio, as C16 does)
    n_explicit = 0
    rng = ctx.rng
    for name, text in bs_plain[::3] + [("irregular:%d" % i, irregular_base(rng)) for i in range(6)]:
        wkw = rng.choice(EXPLICIT)
        bad, st = oracle(text, wkw, 3)
        if st != "ok":
            continue
        n_explicit += 1
        if bad:
            res.oracle_violations.append({"payload": {"text": text, "wkw": wkw, "k": 3}, "what": "%s (explicit %r): %s" % (name, wkw, bad)})
    hist["explicit_strt_stop_step"] = n_explicit
    if ctx.build.model_ok:
        mism, err = lib.run_coq_cases("c11", [], wm.RUN_PIPE, cases, shard=6)
        res.corr_error = err
        for i in mism:
            res.mismatches.append({"base": meta[i][0], "ops": repr(meta[i][2]), "text": meta[i][1]})
        # tie of C11_second_cycle to the code: where the model finds the first written form in the theorem's domain,
        # lasio must write the same text on the second cycle
        out_dom, err2 = lib.run_coq_cases("c11dom", [], RUN_DOMAIN, [(c[0], "D") for c in cases], shard=6)
        if err2:
            res.corr_error = (res.corr_error or "") + " domain: " + err2
        else:
            out_dom = sorted(set(out_dom))
            out_c, err3 = lib.run_coq_cases("c11domc", [], RUN_DOMAIN, [(cases[i][0], "C") for i in out_dom], shard=6)
            if err3:
                res.corr_error = (res.corr_error or "") + " domain(content): " + err3
                out_c = list(range(len(out_dom)))
            neither = set(out_dom[j] for j in out_c)
            in_c = [i for i in out_dom if i not in neither]
            hist["second_cycle_domain_same_text"] = len(cases) - len(out_dom)
            hist["second_cycle_domain_content"] = len(in_c)
            hist["second_cycle_outside_both"] = len(neither)
            hist["lasio_second_text_same"] = sum(1 for x in same_text if x)
            for i in range(len(cases)):
                if i not in out_dom and not same_text[i]:
                    res.mismatches.append({"base": meta[i][0], "ops": repr(meta[i][2]), "text": meta[i][1],
                                           "what": "in the domain of C11_second_cycle but lasio's second text differs"})
            for i in in_c:
                if not same_data[i]:
                    res.mismatches.append({"base": meta[i][0], "ops": repr(meta[i][2]), "text": meta[i][1],
                                           "what": "in the domain of C11_second_cycle_content_partial but lasio's second data lines differ"})
    else:
        res.corr_error = "model not built"
    # a class of accepted inputs that turns into rejected ones must not shrink the sample silently
    if not_accepted or n_corpus < MIN_CORPUS or hist["null_twice_written_as_1.2"] < MIN_NULL_TWICE_12:
        res.corr_error = ((res.corr_error + "; ") if res.corr_error else "") + \
            ("%d input(s) built as accepted were not accepted (%s); %d example files passed the corpus filter (expected >= %d); "
             "%d chains with a repeated NULL line written in the 1.2 layout (expected >= %d)"
             % (len(not_accepted), "; ".join(not_accepted[:3]), n_corpus, MIN_CORPUS, hist["null_twice_written_as_1.2"], MIN_NULL_TWICE_12))
    res.oracle_violations.sort(key=lambda v: NONBLANK_TAG in v["what"])      # violations outside the known class are reported first
    res.cases = len(cases) + n_explicit
    res.distinct_nontrivial = len(kinds)
    res.rule = ("accepted inputs = the readable/writable ASCII LAS 1.2/2.0 example files plus generated files with odd features "
                "(.1IN unit, duplicated/blank mnemonics, empty value with unit, long fields), generated DLM COMMA/TAB files and files of "
                "both versions that repeat a mnemonic inside a section (NULL two or three times in ~Well with equal / different values "
                "and spellings, COMP/UWI/WELL twice, a ~Parameter mnemonic two or three times; each cycled in the 1.2 layout) x writer "
                "option sets (versions, wrap, formats, column_fmt for j >= 0, field width, spacer, lhs_spacer, header styles; ',' ';' '' "
                "spacers on the implementation side) x read options (default, mnemonic_case, engine, ignore_header_errors) x 2..5 "
                "read->write cycles; non-trivial = distinct (base, option set, read options)")
    res.samples = [meta[0][0], repr(meta[0][2][1])] if meta else []
    res.histogram = hist
    return res


def fix_wkw(wkw):
    wkw = dict(wkw)
    if "column_fmt" in wkw:
        wkw["column_fmt"] = {int(a): b for a, b in wkw["column_fmt"].items()}
    return wkw


def replay(payload):
    bad, st = oracle(payload["text"], fix_wkw(payload["wkw"]), payload["k"], payload.get("rkw"))
    return bad is not None, bad or "ok"


def finding_of(payload):
    """nonblank-spacer: the writer options hold a spacer that is not a run of blanks/tabs, the chain fails, and the same chain with that
    spacer replaced by ' ' does not fail (anything else wrong on the payload is another violation)"""
    try:
        wkw = fix_wkw(payload["wkw"])
        if not nonblank(wkw):
            return None
        bad, st = oracle(payload["text"], wkw, payload["k"], payload.get("rkw"))
        if st != "ok" or not bad or not bad.startswith(NONBLANK_TAG):
            return None
        w2 = dict(wkw)
        w2["spacer"] = " "
        bad2, st2 = oracle(payload["text"], w2, payload["k"], payload.get("rkw"))
        if st2 == "ok" and bad2 is None:
            return "nonblank-spacer"
    except Exception:
        return None
    return None


def search(ctx, res):
    import random
    rng = random.Random(ctx.seed + 41)
    bs = dup_bases(random.Random(ctx.seed + 43), 18) + [("corpus:" + n, t) for n, t in corpus_files.corpus()] + [("gen", corpus_files.generated(rng)) for _ in range(300)] + \
        [("dlm", delimited_base(rng)) for _ in range(60)] + dup_bases(random.Random(ctx.seed + 44), 90)
    drng = random.Random(ctx.seed + 45)
    for name, text in bs:
        for wkw in WOPTS:
            rkw = (drng if name.startswith("dup:") else rng).choice(ROPTS)
            bad, st = oracle(text, wkw, 3, rkw)
            if st == "ok" and bad:
                yield {"payload": {"text": text, "wkw": wkw, "k": 3, "rkw": rkw}, "what": "%s: %s" % (name, bad)}
                return
