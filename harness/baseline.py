#!/venv/bin/python
"""Run lasio's pinned test suite with the verification guard OFF and compare with
/root/.vp/BASELINE.json (every stable_pass test must pass).  Exit 0 iff so."""
import json, os, subprocess, sys, tempfile
import xml.etree.ElementTree as ET

def main():
    base = json.load(open("/root/.vp/BASELINE.json"))
    want = set(base["stable_pass"])
    env = dict(os.environ)
    env.pop("LASIO_VERIF", None)
    with tempfile.TemporaryDirectory() as d:
        xml = os.path.join(d, "r.xml")
        cmd = base["cmd"].replace("<file>", xml)
        subprocess.run(cmd, shell=True, env=env, stdout=subprocess.DEVNULL, stderr=subprocess.DEVNULL)
        passed = set()
        for tc in ET.parse(xml).getroot().iter("testcase"):
            bad = any(c.tag in ("failure", "error", "skipped") for c in tc)
            if not bad:
                passed.add(tc.get("classname") + "::" + tc.get("name"))
    missing = sorted(want - passed)
    print("baseline: %d/%d stable tests pass" % (len(want & passed), len(want)))
    for m in missing:
        print("  NOT PASSING:", m)
    return 1 if missing else 0

if __name__ == "__main__":
    sys.exit(main())
