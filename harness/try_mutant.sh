#!/bin/bash
# usage: try_mutant.sh <worktree id, e.g. c07> <PROP, e.g. C07> [extra PROPs...]
# Confirms the seeded change (demo fails with it, passes on /repo), then runs our check(s) against the changed tree
# WITHOUT touching /repo or the shared Gen files (LASIO_REPO + --no-build: correspondence + oracle only).
id=$1; shift
wt=/tmp/wt/$id; out=/tmp/wt/${id}_out
echo "== demo on changed tree:"; (cd $out && PYTHONPATH=$wt /venv/bin/python demo.py 2>&1 | grep -v conda | tail -3; echo "exit=${PIPESTATUS[0]}")
echo "== demo on /repo:"; (cd $out && PYTHONPATH=/repo /venv/bin/python demo.py 2>&1 | grep -v conda | tail -2; echo "exit=${PIPESTATUS[0]}")
for p in "$@"; do
  echo "== ./check $p against the changed tree (no build):"
  (cd /verif && LASIO_REPO=$wt timeout 1500 ./check $p --no-build 2>&1 | grep -v conda | grep -E "VIOLATION|failing input|PASS|FAIL|KNOWN" | cut -c1-400)
done
