"""Running the real lasio.read and rendering its result in the canonical form that
coq/Corr/ReadShow.v renders the read model's result in; building the per-case oracle table
(float.hex / str of every candidate numeric token, computed by CPython)."""
import io
import re

import numpy as np

import lib

FS, RS, IS = lib.FS, lib.RS, "\ue002"

RUN_READ = """
Require Import ReadShow.
Definition run := run_read.
"""
REQUIRES = []


def opt_code(ignore_header_errors=False, mnemonic_case="upper", engine="numpy", null_policy="strict",
             ignore_data=False, show_engine=False):
    return ("T" if ignore_header_errors else "F") + {"preserve": "p", "upper": "u", "lower": "l"}[mnemonic_case] + \
        ("n" if engine == "numpy" else "o") + ("s" if null_policy == "strict" else "x") + \
        ("T" if ignore_data else "F") + ("T" if show_engine else "F")


def hval(v):
    if isinstance(v, (bool, np.bool_)):
        return "O:" + repr(v)
    if isinstance(v, (int, np.integer)):
        return "I:%d" % int(v)
    if isinstance(v, (float, np.floating)):
        return "F:" + float(v).hex()
    if isinstance(v, str):
        return "S:" + v
    return "O:" + repr(v)


def show_items(sec):
    return "".join(FS.join([it.original_mnemonic, it.mnemonic, str(it.unit), hval(it.value), str(it.descr)]) + IS
                   for it in sec)


def show_cell(x):
    if isinstance(x, (float, np.floating)):
        return "nan" if x != x else "n:" + float(x).hex()
    if isinstance(x, (int, np.integer)):
        return "n:" + float(x).hex()
    return "s:" + str(x)


def show_las(las, with_engine=False):
    out = ["OK", show_items(las.version), show_items(las.well), show_items(las.curves), show_items(las.params),
           las.other]
    cust = ""
    for k, sec in las.sections.items():
        if k in ("Version", "Well", "Curves", "Parameter", "Other"):
            continue
        if isinstance(sec, str):
            cust += k + FS + "T" + FS + sec + RS
        else:
            cust += k + FS + "I" + FS + show_items(sec) + RS
    out.append(cust)
    def col(c):
        import numpy as np
        if np.ndim(c.data) != 1:        # not a one-dimensional array: shown as its shape (never equal to a model column)
            return "shape%r" % (np.shape(c.data),) + FS
        return "".join(show_cell(x) + FS for x in c.data)
    out.append("".join(col(c) + IS for c in las.curves))
    if with_engine:
        tr = getattr(las, "_verif_engine_trace", None)
        out.append("T" if (tr and tr[-1] == "numpy") else "F")
    else:
        out.append("")
    return RS.join(out)


def err_class(e):
    import lasio.exceptions as ex
    if isinstance(e, ex.LASHeaderError):
        m = re.search(r'"(.*)"$', str(e), re.S)
        return "ERR:LASHeaderError:" + (m.group(1) if m else "?")
    if isinstance(e, KeyError):
        return "ERR:KeyError"
    if isinstance(e, ValueError):
        return "ERR:ValueError"
    return "ERR:" + type(e).__name__


def impl_read(text, with_engine=False, **kw):
    """Returns (canonical string, las or None)."""
    import lasio
    try:
        las = lasio.read(text, **kw)
    except Exception as e:  # noqa
        return err_class(e), None
    return show_las(las, with_engine), las


_SUBS = None


def candidate_tokens(text):
    """Superset of the tokens the model may ask the oracle about."""
    global _SUBS
    if _SUBS is None:
        from lasio import defaults
        _SUBS = [s for k in ("comma-decimal-mark", "run-on(-)", "run-on(.)") for s in defaults.READ_SUBS[k]]
    toks = {"nan", "2.0", "1.2", "-9999.25", "NaN"}
    variants = [text]
    cur = text
    for rx, rep in _SUBS:
        cur2 = "\n".join(rx.sub(rep, ln) for ln in cur.split("\n"))
        variants.append(cur2)
        cur = cur2
    # also each substitution alone and without the hyphen one
    for rx, rep in _SUBS:
        variants.append("\n".join(rx.sub(rep, ln) for ln in text.split("\n")))
    v = text
    for rx, rep in (_SUBS[0], _SUBS[2]):
        v = "\n".join(rx.sub(rep, ln) for ln in v.split("\n"))
    variants.append(v)
    # genfromtxt drops everything after '#'
    variants.append("\n".join(ln.split("#")[0] for ln in text.split("\n")))
    for var in variants:
        for t in re.split(r"[\s,\"':]+", var):
            if t:
                toks.add(t)
        for t in re.split(r"[\s\"']+", var):
            if t:
                toks.add(t)
                toks.add(t.replace(",", "."))
    return toks


def oracle_table(text, extra=()):
    parts = []
    toks = set(candidate_tokens(text)) | set(extra)
    more = set()
    for t in toks:
        try:
            more.add(str(int(t)))
        except ValueError:
            pass
    for t in sorted(toks | more):
        if FS in t or RS in t:
            continue
        try:
            f = np.float64(t)
            parts += [t, float(f).hex(), str(f)]
        except ValueError:
            parts += [t, "ERR", ""]
    return parts


def coq_case(text, expected, **kw):
    return (FS.join([opt_code(**kw), text] + oracle_table(text)), expected)
