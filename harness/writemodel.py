"""Pipelines over the real lasio (read / edit in memory / write / re-read ...) rendered in the
canonical form of coq/Corr/WriteShow.v `run_pipeline`, plus the oracle tables (float.hex,
str() and `fmt % x` of every candidate token, computed by CPython)."""
import io

import numpy as np

import lib
import readmodel as rm

FS, RS, IS = rm.FS, rm.RS, rm.IS
IS2 = "\ue003"
OPS = "\ue004"
MARK = "\x01FTAB"

RUN_PIPE = """
Require Import WriteShow.
Definition run := run_pipeline.
"""


def wopt_code(version=None, wrap=None, fmt="%.5f", column_fmt=None, len_numeric_field=None, lhs_spacer=" ", spacer=" ",
              data_width=79, header_width=60, data_section_header="~ASCII", mnemonics_header=False):
    v = "" if version is None else ("1.2" if version == 1.2 else "2")
    w = "" if wrap is None else ("T" if wrap else "F")
    cf = IS2.join("%d=%s" % (j, f) for j, f in sorted((column_fmt or {}).items()))
    lnf = "" if len_numeric_field is None else str(len_numeric_field)
    return IS.join([v, w, fmt, cf, lnf, lhs_spacer, spacer, str(data_width), str(header_width), data_section_header,
                    "T" if mnemonics_header else "F"])


# ops: ("R", rkw) | ("W", wkw) | ("EN",) | ("ES", j, [tokens]) | ("EV", sect_letter, mnemonic, text)
#      | ("ED", j)  delete curve j   | ("EB", [(mnemonic, unit, [tokens]), ...])  a LASFile built from scratch with these curves
#        (ED / EB: additions for C16; the Coq side knows them only once Corr/WriteShow.v has been extended)
def op_code(op):
    if op[0] == "ED":
        return "ED" + str(op[1])
    if op[0] == "EB":
        return "EB" + "".join(IS + IS2.join([c[0], c[1]] + list(c[2])) for c in op[1])
    if op[0] == "R":
        return "R" + rm.opt_code(**op[1])
    if op[0] == "W":
        return "W" + wopt_code(**op[1])
    if op[0] == "EN":
        return "EN"
    if op[0] == "ES":
        return "ES" + str(op[1]) + IS + IS2.join(op[2])
    if op[0] == "EV":
        return "EV" + op[1] + IS + op[2] + IS + op[3]
    raise ValueError(op)


SECT = {"V": "Version", "W": "Well", "C": "Curves", "P": "Parameter"}


def tocell(t):
    try:
        return float(np.float64(t))
    except ValueError:
        return t


def build_scratch(curves):
    """lasio.LASFile() + append_curve for every (mnemonic, unit, tokens)"""
    import lasio
    las = lasio.LASFile()
    for m, u, toks in curves:
        vals = [tocell(t) for t in toks]
        if all(isinstance(v, float) for v in vals):
            data = np.array(vals, dtype=float)
        else:
            data = np.array([str(v) if not isinstance(v, str) else v for v in vals])
        las.append_curve(m, data, unit=u)
    return las


def run_impl(text, ops):
    """-> dict(canon=str, texts=[...], las=<last LASFile or None>, fmts=set, diffs=[(hex1, hex0, text)])"""
    import lasio
    out = ""
    texts, all_texts = [], [text]
    las = None
    cur = text
    fmts = {"%.5f"}
    diffs = []
    extra_tokens = set()

    def note_diff():
        try:
            idx = las.index
            if len(idx) >= 2 and isinstance(idx[0], float) and isinstance(idx[1], float):
                diffs.append((float(idx[1]).hex(), float(idx[0]).hex(), float(idx[1] - idx[0])))
        except Exception:
            pass

    for op in ops:
        if op[0] == "R":
            try:
                las = lasio.read(cur, **op[1])
            except Exception as e:
                return dict(canon=out + rm.err_class(e), texts=texts, las=None, fmts=fmts, diffs=diffs, all_texts=all_texts, extra=extra_tokens)
            note_diff()
        elif op[0] == "W":
            fmts.add(op[1].get("fmt", "%.5f"))
            fmts |= set((op[1].get("column_fmt") or {}).values())
            note_diff()
            buf = io.StringIO()
            try:
                las.write(buf, **op[1])
            except Exception:
                return dict(canon=out + "ERR", texts=texts, las=None, fmts=fmts, diffs=diffs, all_texts=all_texts, extra=extra_tokens)
            cur = buf.getvalue()
            texts.append(cur)
            all_texts.append(cur)
            out += cur + RS + RS
        elif op[0] == "EN":
            las.index_initial = None
        elif op[0] == "ED":
            del las.curves[op[1]]
        elif op[0] == "EB":
            las = build_scratch(op[1])
            cur = ""
            extra_tokens |= {"nan", "2.0", "-9999.25"}      # the numeric default items of LASFile()
            for c in op[1]:
                extra_tokens |= set(c[2])
        elif op[0] == "ES":
            vals = [tocell(t) for t in op[2]]
            extra_tokens |= set(op[2])
            if all(isinstance(v, float) for v in vals):
                las.curves[op[1]].data = np.array(vals, dtype=float)
            else:
                las.curves[op[1]].data = np.array([str(v) if not isinstance(v, str) else v for v in vals])
        elif op[0] == "EV":
            try:
                las.sections[SECT[op[1]]][op[2]].value = op[3]
            except KeyError:
                pass                     # the model's edit is a no-op too when the item is absent
    if las is not None:
        out += rm.show_las(las)
    return dict(canon=out, texts=texts, las=las, fmts=fmts, diffs=diffs, all_texts=all_texts, extra=extra_tokens)


def tables(r):
    toks = set(r["extra"])
    for t in r["all_texts"]:
        toks |= rm.candidate_tokens(t)
    more = set()
    for t in toks:
        try:
            more.add(str(int(t)))
        except ValueError:
            pass
    tab, ftab = [], []
    for t in sorted(toks | more):
        if FS in t or RS in t or IS in t or IS2 in t or OPS in t:
            continue
        try:
            f = np.float64(t)
        except ValueError:
            tab += [t, "ERR", ""]
            continue
        tab += [t, float(f).hex(), str(f)]
        for fm in sorted(r["fmts"]):
            try:
                ftab += [fm, t, fm % f]
            except Exception:
                pass
    for fm in sorted(r["fmts"]):
        try:
            ftab += [fm, "\x01PI", fm % np.pi]
        except Exception:
            pass
    for h1, h0, d in r["diffs"]:
        for fm in sorted(r["fmts"]):
            try:
                ftab += [fm, "\x01D" + h1 + "\x01" + h0, fm % d]
            except Exception:
                pass
    return tab, ftab


def coq_case(text, ops, r=None):
    """-> ((input, expected), impl result dict)"""
    if r is None:
        r = run_impl(text, ops)
    tab, ftab = tables(r)
    inp = FS.join([OPS.join(op_code(o) for o in ops), text] + tab + [MARK] + ftab)
    return (inp, r["canon"]), r
