"""Running the real LASFile.write and rendering (texts, snapshot) in the canonical form of
coq/Corr/WriteShow.v; building the formatting-oracle table (fmt % float(tok), computed by CPython)."""
import io

import numpy as np

import lib
import readmodel as rm

FS, RS, IS = rm.FS, rm.RS, rm.IS
IS2 = ""
MARK = "\x01FTAB"

RUN_WRITE = """
Require Import WriteShow.
Definition run := run_write.
"""


def wopt_code(version=None, wrap=None, fmt="%.5f", column_fmt=None, len_numeric_field=None, lhs_spacer=" ", spacer=" ",
              data_width=79, header_width=60, data_section_header="~ASCII", mnemonics_header=False):
    v = "" if version is None else ("1.2" if version == 1.2 else "2")
    w = "" if wrap is None else ("T" if wrap else "F")
    cf = IS2.join("%d=%s" % (j, f) for j, f in sorted((column_fmt or {}).items()))
    lnf = "" if len_numeric_field is None else str(len_numeric_field)
    return IS.join([v, w, fmt, cf, lnf, lhs_spacer, spacer, str(data_width), str(header_width), data_section_header,
                    "T" if mnemonics_header else "F"])


def impl_write(text, rkw, wkw, nwrites=1):
    """-> (canonical string, list of written texts, las or None)"""
    import lasio
    try:
        las = lasio.read(text, **rkw)
    except Exception as e:
        return rm.err_class(e), [], None
    out = ""
    texts = []
    for _ in range(nwrites):
        buf = io.StringIO()
        try:
            las.write(buf, **wkw)
        except Exception:
            return out + "ERR", texts, None
        texts.append(buf.getvalue())
        out += buf.getvalue() + RS + RS
    return out + rm.show_las(las), texts, las


def fmt_table(text, rkw, wkw):
    """flat triples fmt, tok, text for every float-able candidate token and every format in use,
    plus the pi and index-difference entries"""
    import lasio
    fmts = {"%.5f", wkw.get("fmt", "%.5f")} | set((wkw.get("column_fmt") or {}).values())
    parts = []
    toks = rm.candidate_tokens(text)
    for t in sorted(toks):
        if FS in t or RS in t:
            continue
        try:
            f = np.float64(t)
        except ValueError:
            continue
        for fm in sorted(fmts):
            try:
                parts += [fm, t, fm % f]
            except Exception:
                pass
    for fm in sorted(fmts):
        try:
            parts += [fm, "\x01PI", fm % np.pi]
        except Exception:
            pass
    try:
        las = lasio.read(text, **rkw)
        idx = las.index
        if len(idx) >= 2 and isinstance(idx[0], float) and isinstance(idx[1], float):
            parts += ["%.5f", "\x01D" + float(idx[1]).hex() + "\x01" + float(idx[0]).hex(), "%.5f" % (idx[1] - idx[0])]
    except Exception:
        pass
    return parts


def coq_case(text, expected, rkw, wkw, nwrites=1):
    rcode = rm.opt_code(**rkw)
    inp = FS.join([rcode, wopt_code(**wkw), str(nwrites), text] + rm.oracle_table(text) + [MARK] + fmt_table(text, rkw, wkw))
    return (inp, expected)
