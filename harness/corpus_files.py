"""The readable, writable example files of /repo/tests/examples that lie inside the modelled
fragment (ASCII, LAS 1.2/2.0, numeric index), plus generated bases and mutations."""
import glob
import io
import os

import lasgen

_cache = None


def corpus(max_size=12000):
    global _cache
    if _cache is not None:
        return _cache
    import lasio
    out = []
    root = os.path.join(os.environ.get("LASIO_REPO", "/repo"), "tests", "examples")
    files = sorted(glob.glob(root + "/*.las") + glob.glob(root + "/1.2/*.las") + glob.glob(root + "/2.0/*.las"))
    for f in files:
        try:
            text = open(f, encoding="utf-8").read()
        except Exception:
            continue
        if len(text) > max_size or len(text.splitlines()) < 2 or not text.isascii() or "\x1a" in text:
            continue
        try:
            las = lasio.read(text)
            if len(las.curves) == 0 or las.curves[0].data.dtype.kind != "f":
                continue
            if any(c.data.dtype.kind != "f" for c in las.curves):
                continue
            v = las.version["VERS"].value
            if float(v) not in (1.2, 2.0):
                continue
            las.write(io.StringIO())
        except Exception:
            continue
        out.append((os.path.basename(f), text))
    _cache = out
    return out


def generated(rng):
    """a generated base file with a few odd but accepted features"""
    s = lasgen.basic_spec(rng)
    if rng.random() < 0.3:
        s.curves[0] = (s.curves[0][0], rng.choice([".1IN", "FT", "M"]), "", s.curves[0][3])
    if rng.random() < 0.3 and len(s.curves) > 1:
        s.curves[-1] = (s.curves[0][0], s.curves[-1][1], "", "duplicate of the first")
    if rng.random() < 0.2:
        s.params.append(("", "M", "5", "blank mnemonic"))
    if rng.random() < 0.3:
        s.params.append(("LONG", "DEGC", "", "empty value with unit"))
    if rng.random() < 0.3:
        s.well.append(("DATE", "", "01/02/2003", "log date"))
    if rng.random() < 0.2:
        s.params.append(("VLONG", "", "x" * 70, "d" * 40))
    if rng.random() < 0.4:
        # a unit starting with a period on an item with the longest mnemonic and the widest unit+value
        s.params = [(m[:3], u, v[:6], d) for (m, u, v, d) in s.params]
        s.params.append(("ELEVATION", ".1IN", "39370", "elevation of KB"))
    if rng.random() < 0.3:
        s.well = [w for w in s.well if w[0] in ("STRT", "STOP", "STEP")]
        s.curves[0] = (s.curves[0][0], ".1IN", "", s.curves[0][3])
        s.well[1] = ("STOP", "M", "999", "STOP")      # disagrees with the data: refreshed on the first write
    if rng.random() < 0.35:
        # units wrapped in 1..3 (mixed) bracket pairs: the reader strips them; nothing may be left to strip on a later cycle
        def br(u):
            u = u or "U"
            for _ in range(rng.randint(1, 3)):
                u = rng.choice(["(%s)", "[%s]"]) % u
            return u
        s.params = [(m, br(u) if rng.random() < 0.6 else u, v, d) for (m, u, v, d) in s.params]
        s.params.append(("FOO", br("a"), "12", "nested brackets"))
        if len(s.curves) > 1:
            m, u, v, d = s.curves[-1]
            s.curves[-1] = (m, br(u), v, d)
        s.well.append(("BAR", br("degC"), "3", "bracketed unit in ~Well"))
    if rng.random() < 0.3:
        # STRT/STOP/STEP without a unit of their own (the writer copies the index curve's unit onto them), a blank STEP
        # value, a single row with a stale STOP: "an empty value with a unit becomes 0" must not fire on a later cycle
        drop = rng.choice([("STEP",), ("STRT", "STOP", "STEP"), ("STOP", "STEP")])
        blank_step = rng.random() < 0.5
        s.well = [((m, "" if m in drop else u, "" if (m == "STEP" and blank_step) else v, d)) for (m, u, v, d) in s.well]
        s.curves[0] = (s.curves[0][0], rng.choice(["M", "FT"]), "", s.curves[0][3])
        if rng.random() < 0.4:
            s.rows = s.rows[:1]
            s.well = [(m, u, "999" if m == "STOP" else v, d) for (m, u, v, d) in s.well]
    s.wrap = "NO"
    return lasgen.render(s)[0]
