"""Shared machinery of the checks: translate -> prove -> correspond -> (search) -> verdict.

One run of `./check Cxx`:
  1. translators regenerate coq/Gen/*.v from /repo's working tree (fail-closed);
  2. `make Props/Cxx.vo` re-checks every theorem in the closure (full .vo build);
  3. the property's generator produces cases; the real lasio is run on them; the model's
     executable definitions are evaluated inside Coq (vm_compute) on the same cases and
     compared there with the implementation's canonical observation;
  4. the property's direct oracle is evaluated on the implementation for every case;
  5. verdict, evidence, replay files.
"""
import fcntl
import hashlib
import json
import os
import random
import re
import subprocess
import sys
import time

VERIF = os.path.dirname(os.path.dirname(os.path.abspath(__file__)))
COQ = os.path.join(VERIF, "coq")
REPO = os.environ.get("LASIO_REPO", "/repo")
OUT = os.path.join(VERIF, "out")
EVID = os.path.join(VERIF, "evidence")
PY = "/venv/bin/python"
COQ_R = ["-R", "PyLib", "LasioV", "-R", "Gen", "LasioV", "-R", "Model", "LasioV",
         "-R", "Proofs", "LasioV", "-R", "Props", "LasioV", "-R", "Corr", "LasioV"]

FS = "\ue000"
RS = "\ue001"

TRUSTED_BASE = [
    "Coq 8.16.1 kernel and its vm_compute machine (no native_compute)",
    "no axioms: Print Assumptions reports 'Closed under the global context' for every property theorem unless listed in assumptions",
    "no extraction (no Extract Constant / Extract Inductive); the model runs only inside Coq",
    "translators/*.py and CPython's re._parser / ast (regenerate coq/Gen/*.v from /repo on every run)",
    "correspondence harness: harness/*.py generators + canonicalisers, coq/Corr/CaseLib.v (string decoding, comparison loop)",
    "hand-written Gallina model of reader.py / las.py / las_items.py / writer.py logic (46 pinned functions/fragments proved equal to the translation of /repo on every run; the rest tied by correspondence)",
]


def log(*a):
    print(*a, flush=True)


# ---------------------------------------------------------------------------------------
# Coq string literals
def coq_str(s):
    """Encode a Python str as an ASCII-only Coq string literal (decoded by CaseLib.dec)."""
    out = []
    for ch in s:
        o = ord(ch)
        if 32 <= o < 127 and ch not in '"\\':
            out.append(ch)
        else:
            out.append("\\%x;" % o)
    return '"' + "".join(out) + '"'


def fields(*parts):
    return FS.join(parts)


# ---------------------------------------------------------------------------------------
# build
def strip_coq_comments(txt):
    out, depth, j = [], 0, 0
    while j < len(txt):
        if txt.startswith("(*", j):
            depth += 1
            j += 2
        elif txt.startswith("*)", j) and depth:
            depth -= 1
            j += 2
        else:
            if depth == 0:
                out.append(txt[j])
            j += 1
    return "".join(out)


class Build:
    def __init__(self):
        self.printed = []
        self.translate_ok = True
        self.translate_log = ""
        self.proof_ok = True
        self.proof_log = ""
        self.model_ok = True
        self.assumptions = []
        self.obligations = 0
        self.files = []


def _run(cmd, cwd=None, timeout=1800, env=None):
    p = subprocess.run(cmd, cwd=cwd, stdout=subprocess.PIPE, stderr=subprocess.STDOUT,
                       timeout=timeout, env=env, text=True, errors="replace")
    return p.returncode, p.stdout


def base_env():
    env = dict(os.environ)
    env["PYTHONPATH"] = REPO
    env["PYTHONHASHSEED"] = "0"
    env["LASIO_VERIF"] = "1"
    return env


GATE_RE = re.compile(r"\b(Admitted|admit|give_up|Axiom|Axioms|Parameter|Parameters|Conjecture|Conjectures|"
                     r"Unset\s+(Guard|Positivity|Universe)|bypass_check|type-in-type|impredicative-set|Admit\s+Obligations|"
                     r"native_compute|Program\s+(Fixpoint|Definition|Lemma|Theorem|Instance)|Obligation)\b")
DECL_RE = re.compile(r"\s*(Local\s+|Global\s+|#\[[^\]]*\]\s*)*(Variable|Variables|Hypothesis|Hypotheses|Context)\b")


def grep_gate(only=None):
    """Reject the development if a .v file (of the property's dependency closure when `only`
    is given) declares an axiom, admits, or disables a check."""
    bad = []
    only = None if only is None else {os.path.normpath(os.path.join(COQ, f)) for f in only}
    for root, _, fs in os.walk(COQ):
        for f in fs:
            if not f.endswith(".v") or f.startswith("cases_") or f.startswith("Tmpg"):
                continue
            path = os.path.join(root, f)
            if only is not None and os.path.normpath(path) not in only:
                continue
            depth = 0
            scopes = []          # open Section / Module names, innermost last
            for i, line in enumerate(open(path, errors="replace"), 1):
                # strip comments (nesting-aware, line granularity is enough for this gate)
                code = []
                j = 0
                while j < len(line):
                    if line.startswith("(*", j):
                        depth += 1
                        j += 2
                    elif line.startswith("*)", j) and depth:
                        depth -= 1
                        j += 2
                    else:
                        if depth == 0:
                            code.append(line[j])
                        j += 1
                code = re.sub(r'"[^"]*"', '""', "".join(code))
                if GATE_RE.search(code):
                    bad.append("%s:%d: %s" % (os.path.relpath(path, COQ), i, code.strip()))
                for m in re.finditer(r"(?:^|\.\s+|^\s*)(Section|Module\s+Type|Module|End)\s+([A-Za-z_][\w']*)\s*(:=)?", code):
                    kw, name, assign = m.group(1), m.group(2), m.group(3)
                    if kw == "End":
                        if scopes and scopes[-1][1] == name:
                            scopes.pop()
                    elif kw == "Section":
                        scopes.append(("S", name))
                    elif not assign and name not in ("Import", "Export"):
                        scopes.append(("M", name))
                if DECL_RE.match(code) and not any(k == "S" for k, _ in scopes):
                    # outside every Section these declare axioms (Coq 8.16 only warns: local-declaration)
                    bad.append("%s:%d: %s  (Variable/Hypothesis/Context outside a Section)" % (os.path.relpath(path, COQ), i, code.strip()))
    return bad


def closure_files(target_v):
    """.v files (relative to coq/) in the dependency closure of target_v, via coqdep."""
    rc, out = _run(["coqdep"] + COQ_R + ["-sort", target_v], cwd=COQ)
    files = [f for f in out.split() if f.endswith(".v")]
    return files


def count_qed(files):
    n = 0
    for f in files:
        txt = strip_coq_comments(open(os.path.join(COQ, f), errors="replace").read())
        n += len(re.findall(r"\b(Qed|Defined)\.", txt))
    return n


def build(prop_id, model_targets):
    """Translate + prove.  Returns a Build record; never raises (a timeout or a crashing tool is a broken proof)."""
    try:
        return _build(prop_id, model_targets)
    except Exception as e:          # subprocess.TimeoutExpired, OSError, ...
        import traceback
        b = Build()
        b.translate_ok = b.proof_ok = b.model_ok = False
        b.proof_log = "build could not be completed: %r\n%s" % (e, traceback.format_exc())
        try:
            b.files = closure_files("Props/%s.v" % prop_id)
            b.obligations = count_qed(b.files)
        except Exception:
            pass
        return b


def _build(prop_id, model_targets):
    b = Build()
    os.makedirs(OUT, exist_ok=True)
    lock = open(os.path.join(COQ, ".lock"), "w")
    fcntl.flock(lock, fcntl.LOCK_EX)
    try:
        rc, out = _run([PY, os.path.join(VERIF, "translators", "run_all.py")], env=base_env())
        b.translate_ok = rc == 0
        b.translate_log = out
        _run(["bash", os.path.join(COQ, "gen_project.sh")], cwd=COQ)
        b.files = closure_files("Props/%s.v" % prop_id)
        gate = grep_gate(b.files)
        target = "Props/%s.vo" % prop_id
        rc, out = _run(["make", "-j16", target], cwd=COQ, timeout=3000)
        b.proof_log = out
        b.proof_ok = rc == 0 and not gate and b.translate_ok
        if gate:
            b.proof_log += "\nGREP-GATE:\n" + "\n".join(gate)
        if re.search(r"(declared as an? (axiom|parameter)|is declared as a local axiom|local-declaration)", out):
            b.proof_ok = False
            b.proof_log += "\nAXIOM-WARNING in build output"
        # Print Assumptions output: re-run coqc on the Props file only when it was already built
        # (make prints it only on rebuild), cheap because dependencies are compiled.
        if rc == 0:
            rc2, out2 = _run(["coqc"] + COQ_R + ["Props/%s.v" % prop_id], cwd=COQ, timeout=900)
            b.assumptions = [l.strip() for l in out2.splitlines() if l.strip()]
            if rc2 != 0:
                b.proof_ok = False
                b.proof_log += "\n" + out2
            # every Print Assumptions of the property file must answer "Closed under the global context"
            src = strip_coq_comments(open(os.path.join(COQ, "Props/%s.v" % prop_id), errors="replace").read())
            b.printed = re.findall(r"Print\s+Assumptions\s+([\w'.]+)\s*\.", src)
            n_closed = len(re.findall(r"Closed under the global context", out2))
            if re.search(r"^\s*Axioms:", out2, re.M) or n_closed != len(b.printed):
                b.proof_ok = False
                b.proof_log += ("\nPRINT-ASSUMPTIONS GATE: %d Print Assumptions commands, %d answered 'Closed under the global "
                                "context'\n%s" % (len(b.printed), n_closed, out2[-1500:]))
            if re.search(r"local-declaration", out2):
                b.proof_ok = False
                b.proof_log += "\nAXIOM-WARNING (local-declaration) in Props/%s.v" % prop_id
        b.files = closure_files("Props/%s.v" % prop_id)
        b.obligations = count_qed(b.files)
        # the model must be runnable even when a proof broke
        if model_targets:
            rc3, out3 = _run(["make", "-j16"] + model_targets + ["Corr/CaseLib.vo"], cwd=COQ, timeout=3000)
            b.model_ok = rc3 == 0
            if rc3 != 0:
                b.proof_log += "\nMODEL BUILD FAILED:\n" + out3[-3000:]
    finally:
        fcntl.flock(lock, fcntl.LOCK_UN)
        lock.close()
    return b


# ---------------------------------------------------------------------------------------
# correspondence evaluation inside Coq
def run_coq_cases(tag, requires, run_def, cases, shard=400, jobs=16, timeout=1500):
    """cases: list of (input_str, expected_str).  run_def: Gallina text defining
    `run : list N -> list N`.  Returns (mismatch_indices, error_text_or_None)."""
    if not cases:
        return [], None
    corr = os.path.join(COQ, "Corr")
    pid = os.getpid()
    shards = [cases[i:i + shard] for i in range(0, len(cases), shard)]
    names = []
    for k, sh in enumerate(shards):
        name = "cases_%s_%d_%d" % (tag, pid, k)
        names.append(name)
        with open(os.path.join(corr, name + ".v"), "w") as f:
            f.write("From Coq Require Import List NArith ZArith Bool String.\nImport ListNotations.\n")
            f.write("Require Import PyStr CaseLib %s.\n" % " ".join(requires))
            f.write("Open Scope string_scope.\n")
            f.write(run_def + "\n")
            f.write("Definition cases : list (string * string) := [\n")
            f.write(";\n".join("(%s, %s)" % (coq_str(i), coq_str(e)) for i, e in sh))
            f.write("\n].\nEval vm_compute in mismatches run cases.\n")
    procs = []
    results = {}
    err = None
    jobs = max(2, min(jobs, os.cpu_count() or 4))
    # shared lock: no other check may re-translate Gen/*.v or rebuild .vo files while these case files are evaluated
    shlock = open(os.path.join(COQ, ".lock"), "a")
    fcntl.flock(shlock, fcntl.LOCK_SH)
    pending = list(enumerate(names))
    running = []
    t_end = time.time() + timeout
    retries = {}
    retry_later = []
    try:
        while pending or running or retry_later:
            while pending and len(running) < jobs:
                k, name = pending.pop(0)
                p = subprocess.Popen(["bash", "-c", "ulimit -s unlimited 2>/dev/null; exec coqc %s Corr/%s.v" %
                                      (" ".join(COQ_R), name)], cwd=COQ, stdout=subprocess.PIPE,
                                     stderr=subprocess.STDOUT, text=True)
                running.append((k, name, p))
            still = []
            for k, name, p in running:
                if p.poll() is None:
                    if time.time() > t_end:
                        p.kill()
                        p.wait()
                        err = "coqc timeout on %s" % name
                        results[k] = None
                        continue
                    else:
                        still.append((k, name, p))
                        continue
                out = p.stdout.read()
                if p.returncode != 0 and (p.returncode < 0 or not out.strip()) and retries.get(k, 0) < 2 and time.time() < t_end:
                    # killed by a signal / no diagnostic (memory pressure from concurrent jobs): run this shard again, alone
                    retries[k] = retries.get(k, 0) + 1
                    retry_later.append((k, name))
                    continue
                if p.returncode != 0:
                    err = "coqc failed on %s (exit %s):\n%s" % (name, p.returncode, out[-2000:])
                    results[k] = None
                else:
                    m = re.search(r"=\s*\[(.*?)\]\s*:\s*list nat", out, re.S)
                    if not m:
                        err = "unparsable coqc output for %s:\n%s" % (name, out[-2000:])
                        results[k] = None
                    else:
                        body = m.group(1).replace("%nat", "")
                        results[k] = [int(x) for x in re.findall(r"\d+", body)]
            running = still
            if not running and not pending and retry_later:
                pending = retry_later[:1]
                retry_later = retry_later[1:]
            if running:
                time.sleep(0.05)
    finally:
        for _k, _name, _p in running:
            try:
                _p.kill()
                _p.wait()
            except Exception:
                pass
        for name in names:
            for ext in (".v", ".vo", ".vok", ".vos", ".glob"):
                try:
                    os.remove(os.path.join(corr, name + ext))
                except OSError:
                    pass
            try:
                os.remove(os.path.join(corr, "." + name + ".aux"))
            except OSError:
                pass
        fcntl.flock(shlock, fcntl.LOCK_UN)
        shlock.close()
    mism = []
    for k in range(len(shards)):
        r = results.get(k)
        if r is None:
            continue
        mism += [k * shard + i for i in r]
    return mism, err


# ---------------------------------------------------------------------------------------
# known findings
def load_known(prop_id):
    known, fixed = [], []
    path = os.path.join(VERIF, "known_findings.txt")
    if not os.path.exists(path):
        return known, fixed
    for line in open(path):
        line = line.strip()
        if not line or line.startswith("#"):
            continue
        if line.startswith("known:"):
            kv = dict(re.findall(r"(\w+)=(\S+)", line))
            if kv.get("property") == prop_id:
                kv["text"] = line.split(None, 4)[-1] if len(line.split(None, 4)) > 4 else line
                known.append(kv)
        elif line.startswith("fixed:"):
            kv = dict(re.findall(r"(\w+)=(\S+)", line))
            if kv.get("property") == prop_id:
                fixed.append(line)
    return known, fixed


# ---------------------------------------------------------------------------------------
def write_replay(prop_id, kind, payload):
    d = os.path.join(OUT, "replays")
    os.makedirs(d, exist_ok=True)
    h = hashlib.sha1(json.dumps(payload, sort_keys=True, default=str).encode()).hexdigest()[:10]
    path = os.path.join(d, "%s_%s_%s.json" % (prop_id, kind, h))
    with open(path, "w") as f:
        json.dump({"property": prop_id, "kind": kind, "payload": payload}, f, indent=1, default=str)
    return path


def write_evidence(prop_id, tier, seed, level, coverage, assumptions, wall_s, violations):
    os.makedirs(EVID, exist_ok=True)
    ev = {"property_id": prop_id, "tier": tier, "seed": seed, "level": level,
          "coverage": coverage, "assumptions": assumptions, "wall_s": round(wall_s, 2),
          "violations": violations}
    with open(os.path.join(EVID, prop_id + ".json"), "w") as f:
        json.dump(ev, f, indent=1, default=str)


def check_floors(prop_id, tier, res):
    """Minimum numbers of cases (total and per histogram class) a run must have explored, fixed from the unchanged
    tree (harness/floors.json, written by harness/make_floors.py, never at check time).  A regression that turns a
    class of accepted inputs into rejected ones must not shrink the sample silently."""
    msgs = []
    if res.cases <= 0:
        msgs.append("no case was explored")
    try:
        floors = json.load(open(os.path.join(VERIF, "harness", "floors.json"))).get(prop_id, {})
    except Exception:
        floors = {}
    if floors:
        if res.cases < floors.get("cases", 0):
            msgs.append("%d cases explored, at least %d expected" % (res.cases, floors["cases"]))
        if res.distinct_nontrivial < floors.get("distinct_nontrivial", 0):
            msgs.append("%d distinct non-trivial cases, at least %d expected" % (res.distinct_nontrivial, floors["distinct_nontrivial"]))
        hist = res.histogram or {}
        for k, n in floors.get("histogram", {}).items():
            v = hist.get(k, 0)
            if isinstance(v, (int, float)) and v < n:
                msgs.append("input class %r: %s cases, at least %d expected" % (k, v, n))
    # the example corpus: files that were accepted on the unchanged tree must still be accepted
    try:
        import corpus_files
        if corpus_files._cache is not None and not os.environ.get("LASIO_CORPUS_FREE"):
            exp = [l.strip() for l in open(os.path.join(VERIF, "harness", "corpus_expected.txt")) if l.strip()]
            have = {n for n, _ in corpus_files._cache}
            gone = [n for n in exp if n not in have]
            if gone:
                msgs.append("example files no longer read/written: %s" % ", ".join(gone[:8]))
    except FileNotFoundError:
        pass
    return msgs


class Result:
    """What a property module returns from run()."""
    def __init__(self):
        self.cases = 0              # cases run through model and implementation
        self.distinct_nontrivial = 0
        self.rule = ""
        self.samples = []
        self.histogram = {}
        self.mismatches = []        # list of (case_repr, detail) model != implementation
        self.corr_error = None      # coqc failure text
        self.oracle_violations = [] # list of dict(payload=..., what=...)
        self.known_hits = []        # list of (finding id, what)
        self.extra = {}


def coq_eval(run_def, inp, timeout=300):
    """Evaluate `run` on one input inside Coq and return the model's output as a str
    (debugging / search aid; the verdict never depends on parsing this)."""
    corr = os.path.join(COQ, "Corr")
    name = "cases_eval_%d" % os.getpid()
    with open(os.path.join(corr, name + ".v"), "w") as f:
        f.write("From Coq Require Import List NArith ZArith Bool String.\nImport ListNotations.\n")
        f.write("Require Import PyStr CaseLib.\nOpen Scope string_scope.\n" + run_def + "\n")
        f.write("Eval vm_compute in run (dec %s).\n" % coq_str(inp))
    try:
        rc, out = _run(["coqc"] + COQ_R + ["Corr/%s.v" % name], cwd=COQ, timeout=timeout)
    finally:
        for ext in (".v", ".vo", ".vok", ".vos", ".glob"):
            try:
                os.remove(os.path.join(corr, name + ext))
            except OSError:
                pass
        try:
            os.remove(os.path.join(corr, "." + name + ".aux"))
        except OSError:
            pass
    m = re.search(r"=\s*\[(.*)\]\s*:\s*list N", out, re.S)
    if not m:
        return "<<coq: %s>>" % out[-500:]
    return "".join(chr(int(x)) for x in re.findall(r"\d+", m.group(1).replace("%N", "")))
