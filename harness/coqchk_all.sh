#!/bin/bash
# Re-check every compiled Props file (and everything it depends on) with Coq's independent checker and
# record the axioms / unsafe features it reports.  Takes a few minutes.  Output: coqchk_report.txt
cd "$(dirname "$0")/../coq"
mods=""
for f in Props/C*.v; do mods="$mods LasioV.$(basename $f .v)"; done
{
  echo "coqchk -o over: $mods"
  echo "coq version: $(coqc --version | head -1)"
  timeout 7200 coqchk -silent -o -R PyLib LasioV -R Gen LasioV -R Model LasioV -R Proofs LasioV -R Props LasioV -R Corr LasioV $mods 2>&1 | tail -30
} > ../coqchk_report.txt
tail -20 ../coqchk_report.txt
