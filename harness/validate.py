#!/usr/bin/env python3
"""Validate MANIFEST.json and every evidence file against the schemas (run with python3-vt)."""
import json, sys, glob, jsonschema
m = json.load(open('/verif/MANIFEST.json'))
jsonschema.validate(m, json.load(open('/root/.vp/MANIFEST.schema.json')))
print("manifest ok: %d checks, %d not_applicable" % (len(m['checks']), len(m.get('not_applicable', []))))
es = json.load(open('/root/.vp/EVIDENCE.schema.json'))
for c in m['checks']:
    p = '/verif/' + c['evidence_file']
    try:
        e = json.load(open(p)); jsonschema.validate(e, es)
        cv = e['coverage']
        print("  %s ok level=%s obligations=%s discharged=%s evals=%s nontrivial=%s wall=%ss" % (c['property_id'], e['level'], cv.get('obligations'), cv.get('discharged'), cv.get('evaluations'), cv.get('distinct_nontrivial'), e['wall_s']))
    except Exception as ex:
        print("  %s EVIDENCE PROBLEM: %s" % (c['property_id'], str(ex)[:200]))
